"""C18 — datetimes are stored as UTC milliseconds on every path and queried consistently.
Two ties to the code, both run on /repo in-process:
(a) correspondence  helpers.patch_datetime_awareness_in_document  ~ Lean `patch`,
                    helpers.make_datetime_timezone_aware_in_document ~ Lean `makeAware`
    on generated values (the theorems of Props/C18.lean are about these two functions), together
    with the vocabulary of the statements (`AllDates Normal`, `AllDates AwareUtc`, `msOf`) against
    the Python oracle of gen_c18.py.

(b) the property stated directly on the real collection API (needs no model):
    WRITE   every write path x generated datetime x generated nesting position: the raw stored
            documents hold only naive whole-millisecond datetimes, and the written value is stored
            as the oracle's normal form (same shape, same millisecond);
    FILTER  every filter-taking entry point x filter form: a different datetime denoting the same
            millisecond selects the document, one denoting another millisecond does not;
    READ    every read path x tz_aware False/True: naive, resp. aware-UTC at every depth, same
            instants as stored.
    AGG     (follows the repairs d1da933, e05c961, 8825a6b) every case under tz_aware False and
            True: a datetime written in an aggregation pipeline, at every position where a value
            can be written x generated nesting, comes out in the form the collection's own
            documents are read in, `$out` stores it like an insert, an equivalent way of writing it
            gives the same aggregation; a stored field compared with a written datetime (every
            comparison operator, both operand orders, `$match`, `$in`, `$subtract`, `$bucket`
            boundaries, `$lookup` …) answers by milliseconds; a datetime the pipeline computes
            (`$dateFromParts` with millisecond carry, `$add` / `$subtract` of a date) compares
            with stored and written ones by its instant, can be grouped by, joined on, stored, and
            reaches the caller in the read form at every depth; the tz_aware=True client gets
            exactly the results of the other one made aware UTC.  Tied to the model: the pipeline
            `process_pipeline` is handed ~ Lean `aggPipeline`, its input = the documents as
            stored (`aggInput`), what becomes of its results ~ Lean `aggResult`, the six
            comparisons ~ Lean `Expr.compareOp` (theorems `pipeline_literals_normal`,
            `result_form`, `aggregate_tz_only_rebuilds_results`, `compare_field_with_literal`,
            `compare_field_with_computed_ms`, …).
    Deviations are classified; classes listed in known_findings.json are reported as KNOWN,
    anything else is a VIOLATION with a replayable case.
(c) the witnesses of the repaired findings (status "fixed" in known_findings.json) are run on every
    check: python must follow the rule on each of them now, else VIOLATION.

"""
import collections
import copy
import datetime as _dt
import json
import os
import random
from unittest import mock

import mongomock
import mongomock.aggregate as _mm_aggregate
from mongomock import helpers
from mongomock.collection import ReturnDocument

import common
import gen_c18 as g
import wire

RULE = ('case = one generated datetime (naive / aware, offsets -12h..+14h in 15 min steps, arbitrary '
        'microseconds, before and after 1970) at one generated nesting position (documents, '
        'OrderedDicts, lists, tuples, depth 0-3) sent through one write path / filter entry point '
        'x filter form / read path x tz_aware, or one generated value through the two helpers; '
        'non-trivial = the datetime is aware with a non-zero offset or has a non-zero '
        'sub-millisecond part, and sits below the top level (nesting depth >= 1; for a datetime '
        'written in a pipeline the stage and operator it sits in count as nesting); distinct = by '
        'hash of (part, path / entry point / form, nesting signature, wire encoding of the value)')

ASSUMPTIONS = [
    'scope limits: PEP 495 fold, tzinfo that is not a fixed whole-minute offset (or is falsy), '
    'bson.Timestamp (bson is absent), datetimes within a day of datetime.min / datetime.max',
    'the store-level invariant is proved as a library (provenance lemmas + reachable_date_inv); '
    'its instantiation for the full collection state machine belongs to the Update/Store model; '
    'until then the write paths are covered by the direct check (b) only',
    'bulk_write is not exercised (it forwards to the same _insert / _update)',
    'pipelines: datetimes *written* in the pipeline are covered at every position (aggPipeline); '
    'datetimes *computed* by the pipeline are exercised through $dateFromParts (millisecond carry '
    'included) and $add / $subtract of a date and a whole number of milliseconds: compared with '
    'stored and written ones, grouped by, joined on, stored by $out; what value another '
    'date-producing operator computes ($dateFromString, $toDate, $add of a fractional number) is '
    'C04\'s matter — whatever it is, aggResult makes it aware UTC for a tz_aware client '
    '(reads_aware_results); $lookup sub-pipelines (`pipeline`, `let`) are not implemented in the '
    'library (C20)',
]
KNOWN_CLASSES = ()


# ================================================================================================
# helpers
# ================================================================================================
def fresh(tz=False, name='c'):
    return mongomock.MongoClient(tz_aware=tz).db[name]


def raw_docs(coll):
    return list(coll._store._documents.values())


def enc(v):
    """exact, type-aware rendering (naive / aware, offsets, microseconds, key order)"""
    try:
        return wire.encs(v, _OIDS)
    except wire.Unencodable as e:
        return '<unencodable %s %r>' % (e, v)

_OIDS = wire.Oids()


def pretty(v):
    return wire.pretty(v)


class Judge(object):
    def __init__(self, ctx):
        self.ctx = ctx
        self.known = {e['id'] for e in common.load_known('C18') if e.get('status') == 'known'}
        self.counts = collections.Counter()       # part -> evaluations
        self.by_path = collections.Counter()
        self.classes = collections.Counter()
        self.errors = collections.Counter()
        self.nontrivial = set()
        self.samples = []
        self.depths = collections.Counter()

    def deviation(self, cls, replay, rank=None):
        """cls = named class of the deviation or None"""
        if cls is not None:
            self.classes[cls] += 1
        if cls is not None and cls in self.known:
            self.ctx.known_seen[cls] = self.ctx.known_seen.get(cls, 0) + 1
            return
        if cls is not None:
            replay = dict(replay, unlisted_class=cls)
        self.ctx.violation(replay, rank=rank)

    def seen(self, part, name, nest_sig, depth, d, key):
        self.counts[part] += 1
        self.by_path['%s:%s' % (part, name)] += 1
        self.depths[depth] += 1
        if d is not None and depth >= 1 and g.nontrivial_date(d):
            self.nontrivial.add(common.case_hash([part, name, nest_sig, key]))


# ================================================================================================
# (a) correspondence of the two helpers
# ================================================================================================
def corr_case(seed):
    r = random.Random(seed)
    oids = wire.Oids()
    vg = g.ValueGen(r, oids)
    x = r.random()
    if x < 0.08:
        v = vg.leaf()
    elif x < 0.12:
        v = None
    else:
        v = vg.value(r.choice([1, 2, 2, 3, 3, 4]))
    return v, oids


def run_corr(ctx, judge, seeds):
    """returns number of evaluations"""
    cases = []
    lines = []
    for s in seeds:
        v, oids = corr_case(s)
        try:
            ev = wire.encs(v, oids)
        except wire.Unencodable:
            continue
        cases.append((s, v, oids))
        lines.append('c18 ' + ev)
        lines.append('aware ' + ev)
    out = wire.run_driver(lines)
    for i, (s, v, oids) in enumerate(cases):
        judge_corr(ctx, judge, s, v, oids, out[2 * i], out[2 * i + 1])
    return len(cases)


def _py(fn, v):
    try:
        return fn(v), None
    except Exception as e:  # pylint: disable=broad-except
        return None, '!' + wire.err_name(e)


def judge_corr(ctx, judge, seed, v, oids, out_c18, out_aware):
    before = copy.deepcopy(v)
    p_py, p_err = _py(helpers.patch_datetime_awareness_in_document, v)
    a_py, a_err = _py(helpers.make_datetime_timezone_aware_in_document, v)
    parts = [x.strip() for x in out_c18.split('|')]
    if len(parts) != 5:
        raise RuntimeError('driver answered %r' % out_c18)
    m_patch, m_aware_patch, m_normal, m_awareutc, m_ms = parts
    rep = {'kind': 'corr', 'case_seed': seed, 'value': pretty(v), 'wire_value': wire.encs(v, oids)}
    ds = g.dates_of(v)
    depth = _depth(v)
    judge.seen('corr', 'helpers', '', depth, next((d for d in ds if g.nontrivial_date(d)), None),
               wire.encs(v, oids))
    if p_err:
        judge.errors[p_err] += 1
    # --- patch
    e_py = p_err or wire.encs(p_py, oids)
    e_spec = wire.encs(g.spec_patch(v), oids)
    if e_py != m_patch:
        if e_py == e_spec:
            ctx.notes.append('model stale but python follows the rule (patch): ' + rep['wire_value'][:200])
        else:
            ctx.violation(dict(rep, what='patch_datetime_awareness_in_document departs from the '
                               'rule "every datetime naive UTC floored to the millisecond, nothing '
                               'else changed"', py=e_py, impl=m_patch, spec=e_spec),
                          rank=len(rep['wire_value']))
    elif e_py != e_spec:
        # model and python agree, both differ from the oracle: contradicts patch_normal /
        # patch_instant / patch_shape
        raise RuntimeError('Lean patch and the Python oracle disagree (theorem contradicted?) %r' % rep)
    if not p_err:
        if g.has_tuple(p_py):
            ctx.violation(dict(rep, what='patch left a tuple in its result', py=repr(p_py)))
        if not _same_mapping_types(v, p_py):
            ctx.violation(dict(rep, what='patch changed a mapping type', py=repr(p_py)))
        a2_py, a2_err = _py(helpers.make_datetime_timezone_aware_in_document, p_py)
        e_a2 = a2_err or wire.encs(a2_py, oids)
        e_a2_spec = wire.encs(g.spec_aware(g.spec_patch(v)), oids)
        if e_a2 != m_aware_patch:
            if e_a2 == e_a2_spec:
                ctx.notes.append('model stale but python follows the rule (makeAware): '
                                 + rep['wire_value'][:200])
            else:
                ctx.violation(dict(rep, what='make_datetime_timezone_aware_in_document on a stored '
                                   'value departs from "same instants, aware UTC, at every depth"',
                                   py=e_a2, impl=m_aware_patch, spec=e_a2_spec),
                              rank=len(rep['wire_value']))
        elif e_a2 != e_a2_spec:
            raise RuntimeError('Lean makeAware and the Python oracle disagree %r' % rep)
    if wire.encs(v, oids) != wire.encs(before, oids):
        ctx.violation(dict(rep, what='a helper mutated its argument'))
    # --- makeAware on the raw value (aware inputs keep their wall clock: no oracle, model only)
    e_a = a_err or wire.encs(a_py, oids)
    if e_a != out_aware.strip():
        ctx.violation(dict(rep, kind='corr', what='correspondence broken: '
                           'helpers.make_datetime_timezone_aware_in_document differs from '
                           'MongoModel.makeAware on this input',
                           what_no_longer_checks='correspondence make_datetime_timezone_aware_in_'
                           'document ~ MongoModel.makeAware', py=e_a, impl=out_aware.strip()),
                      no_input=not ds)
    # --- vocabulary of the statements against the Python oracle
    voc_py = ('T' if all(g.is_normal(d) for d in ds) else 'F',
              'T' if all(g.is_aware_utc(d) for d in ds) else 'F',
              ' '.join(str(g.ms_of(d)) for d in ds))
    if voc_py != (m_normal, m_awareutc, m_ms):
        ctx.violation(dict(rep, what='the predicates of the theorems (AllDates Normal / AwareUtc, '
                           'msOf) disagree with the Python oracle of the direct checks',
                           what_no_longer_checks='vocabulary correspondence', py=list(voc_py),
                           impl=[m_normal, m_awareutc, m_ms]), no_input=True)


def _same_mapping_types(a, b):
    if isinstance(a, dict):
        if type(a) is not type(b) or list(a.keys()) != list(b.keys()):
            return False
        return all(_same_mapping_types(a[k], b[k]) for k in a)
    if isinstance(a, (list, tuple)):
        return isinstance(b, list) and len(a) == len(b) and all(
            _same_mapping_types(x, y) for x, y in zip(a, b))
    return True


def _depth(v):
    if isinstance(v, dict):
        return 1 + max([_depth(x) for x in v.values()] + [0])
    if isinstance(v, (list, tuple)):
        return 1 + max([_depth(x) for x in v] + [0])
    return 0


# ================================================================================================
# (b1) write paths
# ================================================================================================
# each path: fn(coll, W, aux) performs the write(s) and returns [(doc selector, comps, input)]:
# the stored document selected must hold spec_patch(input) at comps.
# selector: ('id', x) or ('only',)
LATE = _dt.datetime(2250, 1, 1)
EARLY = _dt.datetime(1850, 1, 1)


def _w_insert_one(c, W, a):
    c.insert_one({'_id': 1, 'k': 0, 'f': W})
    return [(('id', 1), ['f'], W)]


def _w_insert_many(c, W, a):
    c.insert_many([{'_id': 0, 'k': 0}, {'_id': 1, 'f': W}, {'_id': 2, 'g': {'h': W}}])
    return [(('id', 1), ['f'], W), (('id', 2), ['g', 'h'], W)]


def _w_replace_one(c, W, a):
    c.insert_one({'_id': 1, 'k': 0})
    c.replace_one({'_id': 1}, {'f': W})
    return [(('id', 1), ['f'], W)]


def _w_replace_upsert(c, W, a):
    c.replace_one({'_id': 1}, {'f': W}, upsert=True)
    return [(('id', 1), ['f'], W)]


def _w_set(c, W, a):
    c.insert_one({'_id': 1, 'k': 0})
    c.update_one({'_id': 1}, {'$set': {'f': W}})
    return [(('id', 1), ['f'], W)]


def _w_set_dotted(c, W, a):
    c.insert_one({'_id': 1, 'g': {'x': 1}})
    c.update_one({'_id': 1}, {'$set': {'g.h': W, 'n.m': W}})
    return [(('id', 1), ['g', 'h'], W), (('id', 1), ['n', 'm'], W)]


def _w_set_index(c, W, a):
    c.insert_one({'_id': 1, 'arr': [0]})
    c.update_one({'_id': 1}, {'$set': {'arr.2': W}})
    return [(('id', 1), ['arr', '2'], W)]


def _w_set_many(c, W, a):
    c.insert_many([{'_id': 1}, {'_id': 2}])
    c.update_many({}, {'$set': {'f': W}})
    return [(('id', 1), ['f'], W), (('id', 2), ['f'], W)]


def _w_set_upsert(c, W, a):
    c.update_one({'_id': 1}, {'$set': {'f': W}}, upsert=True)
    return [(('id', 1), ['f'], W)]


def _w_set_on_insert(c, W, a):
    c.update_one({'_id': 1}, {'$setOnInsert': {'f': W}, '$set': {'k': 1}}, upsert=True)
    return [(('id', 1), ['f'], W)]


def _w_push(c, W, a):
    c.insert_one({'_id': 1, 'arr': [0]})
    c.update_one({'_id': 1}, {'$push': {'arr': W}})
    return [(('id', 1), ['arr', '1'], W)]


def _w_push_new(c, W, a):
    c.insert_one({'_id': 1})
    c.update_one({'_id': 1}, {'$push': {'arr': W}})
    return [(('id', 1), ['arr', '0'], W)]


def _w_push_dotted(c, W, a):
    c.insert_one({'_id': 1, 'g': {'arr': [0]}})
    c.update_one({'_id': 1}, {'$push': {'g.arr': W}})
    return [(('id', 1), ['g', 'arr', '1'], W)]


def _w_push_each(c, W, a):
    c.insert_one({'_id': 1, 'arr': [0]})
    c.update_one({'_id': 1}, {'$push': {'arr': {'$each': [W, 5, a['W2']]}}})
    return [(('id', 1), ['arr', '1'], W), (('id', 1), ['arr', '3'], a['W2'])]


def _w_push_each_position(c, W, a):
    c.insert_one({'_id': 1, 'arr': [0, 1, 2]})
    c.update_one({'_id': 1}, {'$push': {'arr': {'$each': [W, a['W2']], '$position': 1}}})
    return [(('id', 1), ['arr', '1'], W), (('id', 1), ['arr', '2'], a['W2'])]


def _w_push_each_slice(c, W, a):
    c.insert_one({'_id': 1, 'arr': [0, 1]})
    c.update_one({'_id': 1}, {'$push': {'arr': {'$each': [W], '$slice': -2}}})
    return [(('id', 1), ['arr', '1'], W)]


def _w_push_upsert(c, W, a):
    c.update_one({'_id': 1}, {'$push': {'arr': W}}, upsert=True)
    return [(('id', 1), ['arr', '0'], W)]


def _w_add_to_set(c, W, a):
    c.insert_one({'_id': 1, 'arr': [0]})
    c.update_one({'_id': 1}, {'$addToSet': {'arr': W}})
    return [(('id', 1), ['arr', '1'], W)]


def _w_add_to_set_new(c, W, a):
    c.insert_one({'_id': 1})
    c.update_one({'_id': 1}, {'$addToSet': {'arr': W}})
    return [(('id', 1), ['arr', '0'], W)]


def _w_add_to_set_each(c, W, a):
    c.insert_one({'_id': 1, 'arr': [0]})
    c.update_one({'_id': 1}, {'$addToSet': {'arr': {'$each': [W, 7]}}})
    return [(('id', 1), ['arr', '1'], W)]


def _w_add_to_set_dotted(c, W, a):
    c.insert_one({'_id': 1, 'g': {'arr': [0]}})
    c.update_one({'_id': 1}, {'$addToSet': {'g.arr': W}})
    return [(('id', 1), ['g', 'arr', '1'], W)]


def _w_add_to_set_dotted_each(c, W, a):
    c.insert_one({'_id': 1, 'g': {'x': 0}})
    c.update_one({'_id': 1}, {'$addToSet': {'g.arr': {'$each': [W, 7]}}})
    return [(('id', 1), ['g', 'arr', '0'], W)]


def _w_min_missing(c, W, a):
    c.insert_one({'_id': 1})
    c.update_one({'_id': 1}, {'$min': {'f': W}})
    return [(('id', 1), ['f'], W)]


def _w_max_missing(c, W, a):
    c.insert_one({'_id': 1})
    c.update_one({'_id': 1}, {'$max': {'f': W}})
    return [(('id', 1), ['f'], W)]


def _w_min_present(c, W, a):     # bare datetime only
    c.insert_one({'_id': 1, 'f': LATE})
    c.update_one({'_id': 1}, {'$min': {'f': W}})
    return [(('id', 1), ['f'], W)]


def _w_max_present(c, W, a):
    c.insert_one({'_id': 1, 'f': EARLY})
    c.update_one({'_id': 1}, {'$max': {'f': W}})
    return [(('id', 1), ['f'], W)]


def _w_min_upsert(c, W, a):
    c.update_one({'_id': 1}, {'$min': {'f': W}}, upsert=True)
    return [(('id', 1), ['f'], W)]


def _current_date(c, W, spec, upsert=False):
    with mock.patch('mongomock.utcnow') as m:
        m.return_value = W
        c.update_one({'_id': 1}, {'$currentDate': spec}, upsert=upsert)


def _w_current_date(c, W, a):    # W is what the clock returns
    c.insert_one({'_id': 1})
    _current_date(c, W, {'f': True})
    return [(('id', 1), ['f'], W)]


def _w_current_date_type(c, W, a):
    c.insert_one({'_id': 1})
    _current_date(c, W, {'f': {'$type': 'date'}})
    return [(('id', 1), ['f'], W)]


def _w_current_date_dotted(c, W, a):
    c.insert_one({'_id': 1, 'g': {'x': 1}})
    _current_date(c, W, {'g.h': True})
    return [(('id', 1), ['g', 'h'], W)]


def _w_current_date_upsert(c, W, a):
    _current_date(c, W, {'f': True}, upsert=True)
    return [(('id', 1), ['f'], W)]


def _w_upsert_seed(c, W, a):
    c.update_one({'f': W}, {'$set': {'k': 1}}, upsert=True)
    return [(('only',), ['f'], W)]


def _w_upsert_seed_dotted(c, W, a):
    c.update_one({'g.h': W, '_id': 1}, {'$set': {'k': 1}}, upsert=True)
    return [(('id', 1), ['g', 'h'], W)]


def _w_upsert_seed_many(c, W, a):
    c.update_many({'f': W, '_id': 1}, {'$inc': {'k': 1}}, upsert=True)
    return [(('id', 1), ['f'], W)]


def _w_foau(c, W, a):
    c.insert_one({'_id': 1, 'k': 0})
    c.find_one_and_update({'_id': 1}, {'$set': {'f': W}})
    return [(('id', 1), ['f'], W)]


def _w_foau_upsert(c, W, a):
    c.find_one_and_update({'_id': 1}, {'$set': {'f': W}, '$push': {'arr': W}}, upsert=True)
    return [(('id', 1), ['f'], W), (('id', 1), ['arr', '0'], W)]


def _w_foau_seed(c, W, a):
    c.find_one_and_update({'f': W}, {'$set': {'k': 1}}, upsert=True)
    return [(('only',), ['f'], W)]


def _w_foar(c, W, a):
    c.insert_one({'_id': 1, 'k': 0})
    c.find_one_and_replace({'_id': 1}, {'f': W})
    return [(('id', 1), ['f'], W)]


def _w_foar_upsert(c, W, a):
    c.find_one_and_replace({'_id': 1}, {'f': W}, upsert=True)
    return [(('id', 1), ['f'], W)]


def _w_id(c, W, a):              # W: bare datetime or a document
    c.insert_one({'_id': W, 'k': 0})
    return [(('only',), ['_id'], W)]


def _w_id_upsert(c, W, a):
    c.update_one({'_id': W}, {'$set': {'k': 1}}, upsert=True)
    return [(('only',), ['_id'], W)]


def _w_id_replace_upsert(c, W, a):
    c.replace_one({'_id': W}, {'k': 1}, upsert=True)
    return [(('only',), ['_id'], W)]

# (name, function, shape constraint): 'any'; 'bare' = the datetime itself; 'cmp' = the datetime or
# a list around it (`min(v, v)` on a dict raises TypeError — an update-operator matter, C02);
# 'id' = a datetime or a document holding one
WRITE_PATHS = [
    ('insert_one', _w_insert_one, 'any'), ('insert_many', _w_insert_many, 'any'),
    ('replace_one', _w_replace_one, 'any'), ('replace_one upsert', _w_replace_upsert, 'any'),
    ('$set', _w_set, 'any'), ('$set dotted', _w_set_dotted, 'any'),
    ('$set array index', _w_set_index, 'any'), ('update_many $set', _w_set_many, 'any'),
    ('$set upsert', _w_set_upsert, 'any'), ('$setOnInsert', _w_set_on_insert, 'any'),
    ('$push', _w_push, 'any'), ('$push new field', _w_push_new, 'any'),
    ('$push dotted', _w_push_dotted, 'any'), ('$push $each', _w_push_each, 'any'),
    ('$push $each $position', _w_push_each_position, 'any'),
    ('$push $each $slice', _w_push_each_slice, 'any'), ('$push upsert', _w_push_upsert, 'any'),
    ('$addToSet', _w_add_to_set, 'any'), ('$addToSet new field', _w_add_to_set_new, 'any'),
    ('$addToSet $each', _w_add_to_set_each, 'any'),
    ('$addToSet dotted', _w_add_to_set_dotted, 'any'),
    ('$addToSet dotted $each', _w_add_to_set_dotted_each, 'any'),
    ('$min missing', _w_min_missing, 'cmp'), ('$max missing', _w_max_missing, 'cmp'),
    ('$min present', _w_min_present, 'bare'), ('$max present', _w_max_present, 'bare'),
    ('$min upsert', _w_min_upsert, 'cmp'),
    ('$currentDate', _w_current_date, 'bare'), ('$currentDate $type', _w_current_date_type, 'bare'),
    ('$currentDate dotted', _w_current_date_dotted, 'bare'),
    ('$currentDate upsert', _w_current_date_upsert, 'bare'),
    ('upsert seed', _w_upsert_seed, 'any'), ('upsert seed dotted', _w_upsert_seed_dotted, 'any'),
    ('update_many upsert seed', _w_upsert_seed_many, 'any'),
    ('find_one_and_update', _w_foau, 'any'), ('find_one_and_update upsert', _w_foau_upsert, 'any'),
    ('find_one_and_update upsert seed', _w_foau_seed, 'any'),
    ('find_one_and_replace', _w_foar, 'any'),
    ('find_one_and_replace upsert', _w_foar_upsert, 'any'),
    ('_id insert_one', _w_id, 'id'), ('_id upsert', _w_id_upsert, 'id'),
    ('_id replace upsert', _w_id_replace_upsert, 'id'),
]
WRITE_BY_NAME = {n: (f, s) for n, f, s in WRITE_PATHS}


def write_case(seed, name=None):
    r = random.Random(seed)
    dg = g.DateGen(r)
    if name is None:
        name = r.choice(WRITE_PATHS)[0]
    fn, shape = WRITE_BY_NAME[name]
    d = dg.date()
    if shape == 'bare':
        nest = g.Nest(r, 0, dg)
    elif shape == 'id':
        # an _id is a datetime or a document (possibly nested) holding one; no arrays
        nest = g.Nest(r, r.choice([0, 0, 1, 2]), dg, tuples=False)
        nest.layers = [l if l[0] in ('doc', 'odoc') else ('doc', r.choice(g.KEYS), [], [])
                       for l in nest.layers]
    else:
        nest = g.Nest(r, r.choice([0, 1, 1, 2, 2, 3]), dg)
        if shape == 'cmp' and nest.layers and nest.layers[0][0] in ('doc', 'odoc'):
            nest.layers[0] = ('arr', 0, [None], None)
    d2 = dg.date()
    return {'kind': 'write', 'case_seed': seed, 'path': name, 'fn': fn, 'date': d, 'nest': nest,
            'W': nest.wrap(d), 'aux': {'W2': g.Nest(r, r.choice([0, 1]), dg).wrap(d2)},
            'tz': r.random() < 0.3, 'dg': dg, 'shape': shape}


def render_write(case):
    return {'kind': 'write', 'case_seed': case['case_seed'], 'path': case['path'],
            'datetime': pretty(case['date']), 'written_value': pretty(case['W']),
            'nesting': case['nest'].signature(), 'tz_aware_client': case['tz']}


def run_write(ctx, judge, case):
    c = fresh(case['tz'])
    W = case['W']
    rep = render_write(case)
    judge.seen('write', case['path'], case['nest'].signature(), case['nest'].depth, case['date'],
               enc(W))
    try:
        locs = case['fn'](c, copy.deepcopy(W), copy.deepcopy(case['aux']))
    except Exception as e:  # pylint: disable=broad-except
        judge.errors['write:' + wire.err_name(e)] += 1
        judge.deviation(None, dict(rep, what='the write raised %s: %s' % (type(e).__name__, e)))
        return
    docs = raw_docs(c)
    devs = []                         # (class or None, text)
    for doc in docs:
        for x in g.dates_of(doc):
            if not g.is_normal(x):
                devs.append((None, 'stored datetime %r is not naive with whole '
                             'milliseconds' % (x,)))
        if g.has_tuple(doc):
            devs.append((None, 'a tuple was stored'))
    for sel, comps, inp in locs:
        if sel[0] == 'id':
            cand = [d for d in docs if enc(d.get('_id')) == enc(sel[1])]
        else:
            cand = docs
        if len(cand) != 1:
            devs.append((None, 'expected exactly one document for %r, found %d' % (sel, len(cand))))
            continue
        try:
            got = g.get_path(cand[0], comps)
        except (KeyError, IndexError, TypeError):
            devs.append((None, 'nothing stored at %s' % '.'.join(comps)))
            continue
        exp = g.spec_patch(inp)
        if enc(got) != enc(exp):
            devs.append((None, 'at %s: stored %s, the normal form of the input is %s'
                         % ('.'.join(comps), enc(got), enc(exp))))
    # the store key must be the stored _id (C05 meets C18: key taken after normalisation)
    for key, doc in c._store._documents.items():
        sid = doc.get('_id')
        if isinstance(sid, dict):
            sid = helpers.hashdict(sid)
        if not (type(key) is type(sid) and key == sid):
            devs.append((None, 'store key %r differs from the stored _id %r' % (key, sid)))
    if case['shape'] == 'id' and not devs:
        devs.extend(_id_checks(case, c))
    if devs:
        classes = set(k for k, _ in devs)
        cls = classes.pop() if len(classes) == 1 else None
        judge.deviation(cls, dict(rep, what='write path %s does not store / address UTC '
                                  'milliseconds' % case['path'],
                                  deviations=[t for _, t in devs][:6],
                                  raw_documents=[pretty(d) for d in docs][:4]),
                        rank=case['nest'].depth * 1000 + len(enc(W)))


def _id_checks(case, c):
    """two _ids denoting the same millisecond collide; lookup / delete by an equivalent works"""
    devs = []
    dg, nest, d = case['dg'], case['nest'], case['date']
    same = nest.wrap(dg.equivalent(d))
    other = nest.wrap(dg.other(d))
    try:
        c.insert_one({'_id': copy.deepcopy(same), 'k': 5})
        devs.append((None, 'a second document whose _id %s denotes the same millisecond was '
                     'accepted' % enc(same)))
    except mongomock.DuplicateKeyError:
        pass
    if c.count_documents({'_id': copy.deepcopy(same)}) != 1:
        devs.append((None, 'lookup by the equivalent _id %s does not find the document' % enc(same)))
    if c.count_documents({'_id': copy.deepcopy(other)}) != 0:
        devs.append((None, 'lookup by another millisecond %s finds the document' % enc(other)))
    try:
        c.insert_one({'_id': copy.deepcopy(other), 'k': 6})
    except mongomock.DuplicateKeyError:
        devs.append((None, 'an _id denoting another millisecond %s was rejected as duplicate'
                     % enc(other)))
    n = len(raw_docs(c))
    try:
        r = c.delete_one({'_id': copy.deepcopy(same)})
        if r.deleted_count != 1 or len(raw_docs(c)) != n - 1:
            devs.append((None, 'delete_one by the equivalent _id removed %d' % r.deleted_count))
    except Exception as e:  # pylint: disable=broad-except
        devs.append((None, 'delete_one by the equivalent _id raised %s (tz_aware=%s)'
                     % (type(e).__name__, case['tz'])))
    return devs


# ================================================================================================
# (b2) filter-taking entry points
# ================================================================================================
def _flt_eq(p, X, case):
    return {p: X}


def _flt_op_eq(p, X, case):
    return {p: {'$eq': X}}


def _flt_in(p, X, case):
    return {p: {'$in': ['zz', X]}}


def _flt_range(p, X, case):
    return {p: {'$gte': X, '$lte': X}}


def _flt_and(p, X, case):
    return {'$and': [{'_id': {'$gte': 0}}, {p: X}]}


def _flt_or(p, X, case):
    return {'$or': [{'nokey': 1}, {p: {'$in': [X]}}]}


def _flt_whole(p, X, case):
    return {'f': case['nest'].wrap(X)}


def _flt_nor_ne(p, X, case):
    return {'$nor': [{p: {'$ne': X}}]}


def _flt_ne(p, X, case):
    return {p: {'$ne': X}}


def _flt_nin(p, X, case):
    return {p: {'$nin': [X, 'zz']}}


def _flt_not(p, X, case):
    return {p: {'$not': {'$gte': X, '$lte': X}}}

# (name, builder, positive?)   negative forms select the complement
FILTER_FORMS = [
    ('eq', _flt_eq, True), ('$eq', _flt_op_eq, True), ('$in', _flt_in, True),
    ('$gte+$lte', _flt_range, True), ('$and', _flt_and, True), ('$or/$in', _flt_or, True),
    ('whole value', _flt_whole, True), ('$nor/$ne', _flt_nor_ne, True),
    ('$ne', _flt_ne, False), ('$nin', _flt_nin, False), ('$not', _flt_not, False),
]
FORM_BY_NAME = {n: (f, pos) for n, f, pos in FILTER_FORMS}


def _ids(docs):
    return [d['_id'] for d in docs]


def _marked(c):
    return sorted(d['_id'] for d in raw_docs(c) if d.get('mark') == 1)


def _e_find(c, f):
    return _ids(c.find(f))


def _e_find_one(c, f):
    d = c.find_one(f)
    return None if d is None else d['_id']


def _e_count(c, f):
    return c.count_documents(f)


def _e_update_one(c, f):
    r = c.update_one(f, {'$set': {'mark': 1}})
    return [r.matched_count, _marked(c)]


def _e_update_many(c, f):
    r = c.update_many(f, {'$set': {'mark': 1}})
    return [r.matched_count, _marked(c)]


def _e_replace_one(c, f):
    r = c.replace_one(f, {'mark': 1})
    return [r.matched_count, _marked(c)]


def _e_delete_one(c, f):
    r = c.delete_one(f)
    return [r.deleted_count, sorted(_ids(raw_docs(c)))]


def _e_delete_many(c, f):
    r = c.delete_many(f)
    return [r.deleted_count, sorted(_ids(raw_docs(c)))]


def _e_distinct(c, f):
    return sorted(c.distinct('_id', f))


def _e_aggregate(c, f):
    return _ids(c.aggregate([{'$match': f}]))


def _e_aggregate_late(c, f):
    return _ids(c.aggregate([{'$addFields': {'zz': 1}}, {'$match': f}]))


def _e_foau(c, f):
    d = c.find_one_and_update(f, {'$set': {'mark': 1}})
    return [None if d is None else d['_id'], _marked(c)]


def _e_foar(c, f):
    d = c.find_one_and_replace(f, {'mark': 1})
    return [None if d is None else d['_id'], _marked(c)]


def _e_foad(c, f):
    d = c.find_one_and_delete(f)
    return [None if d is None else d['_id'], sorted(_ids(raw_docs(c)))]


def _e_find_cursor_count(c, f):
    return len(list(c.find(f).sort('_id', -1)))

ALL_IDS = [1, 2]

# (name, run, expected(S) where S = selected ids in insertion order, `order` = insertion order)
ENTRY_POINTS = [
    ('find', _e_find, lambda S, o: S),
    ('find_one', _e_find_one, lambda S, o: S[0] if S else None),
    ('count_documents', _e_count, lambda S, o: len(S)),
    ('update_one', _e_update_one, lambda S, o: [min(1, len(S)), sorted(S[:1])]),
    ('update_many', _e_update_many, lambda S, o: [len(S), sorted(S)]),
    ('replace_one', _e_replace_one, lambda S, o: [min(1, len(S)), sorted(S[:1])]),
    ('delete_one', _e_delete_one,
     lambda S, o: [min(1, len(S)), sorted(x for x in o if x not in S[:1])]),
    ('delete_many', _e_delete_many, lambda S, o: [len(S), sorted(x for x in o if x not in S)]),
    ('distinct', _e_distinct, lambda S, o: sorted(S)),
    ('aggregate $match', _e_aggregate, lambda S, o: S),
    ('aggregate $match (2nd stage)', _e_aggregate_late, lambda S, o: S),
    ('find_one_and_update', _e_foau, lambda S, o: [S[0] if S else None, sorted(S[:1])]),
    ('find_one_and_replace', _e_foar, lambda S, o: [S[0] if S else None, sorted(S[:1])]),
    ('find_one_and_delete', _e_foad,
     lambda S, o: [S[0] if S else None, sorted(x for x in o if x not in S[:1])]),
    ('find+sort', _e_find_cursor_count, lambda S, o: len(S)),
]
ENTRY_BY_NAME = {n: (f, e) for n, f, e in ENTRY_POINTS}


def filter_case(seed, entry=None, form=None):
    r = random.Random(seed)
    dg = g.DateGen(r)
    if entry is None:
        entry = r.choice(ENTRY_POINTS)[0]
    if form is None:
        form = r.choice(FILTER_FORMS)[0]
    nest = g.Nest(r, r.choice([0, 1, 1, 2, 2, 3]), dg, decoy_dates=False)
    d = dg.date()
    return {'kind': 'filter', 'case_seed': seed, 'entry': entry, 'form': form, 'nest': nest,
            'date': d, 'same': dg.equivalent(d), 'other': dg.other(d), 'far': dg.far(),
            'target_first': r.random() < 0.5, 'tz': r.random() < 0.3,
            'write': r.choice(['insert_one', 'insert_one', '$set', 'replace_one'])}


def render_filter(case, which=None, flt=None):
    rep = {'kind': 'filter', 'case_seed': case['case_seed'], 'entry_point': case['entry'],
           'filter_form': case['form'], 'stored_datetime': pretty(case['date']),
           'stored_value': pretty(case['nest'].wrap(case['date'])),
           'decoy_datetime': pretty(case['far']), 'nesting': case['nest'].signature(),
           'written_by': case['write'], 'tz_aware_client': case['tz']}
    if which:
        rep['operand'] = which
        rep['query'] = pretty(flt)
    return rep


def _filter_setup(case):
    c = fresh(case['tz'])
    nest = case['nest']
    docs = [(1, nest.wrap(case['date'])), (2, nest.wrap(case['far']))]
    if not case['target_first']:
        docs.reverse()
    for i, W in docs:
        W = copy.deepcopy(W)
        if case['write'] == 'insert_one':
            c.insert_one({'_id': i, 'f': W})
        elif case['write'] == '$set':
            c.insert_one({'_id': i})
            c.update_one({'_id': i}, {'$set': {'f': W}})
        else:
            c.insert_one({'_id': i, 'k': 0})
            c.replace_one({'_id': i}, {'f': W})
    return c, [i for i, _ in docs]


def run_filter(ctx, judge, case):
    build, positive = FORM_BY_NAME[case['form']]
    fn, expected = ENTRY_BY_NAME[case['entry']]
    nest = case['nest']
    path = '.'.join(['f'] + nest.path)
    judge.seen('filter', '%s / %s' % (case['entry'], case['form']), nest.signature(), nest.depth,
               case['same'] if g.nontrivial_date(case['same']) else case['date'],
               enc([nest.wrap(case['date']), case['same'], case['other']]))
    for which, X, hits in (('same millisecond', case['same'], True),
                           ('another millisecond', case['other'], False)):
        c, order = _filter_setup(case)
        flt = build(path, X, case)
        if positive:
            S = [i for i in order if i == 1 and hits]
        else:
            S = [i for i in order if not (i == 1 and hits)]
        exp = expected(S, order)
        try:
            got = fn(c, copy.deepcopy(flt))
        except Exception as e:  # pylint: disable=broad-except
            got = '!%s: %s' % (type(e).__name__, e)
            judge.errors['filter:' + wire.err_name(e)] += 1
        if got != exp:
            judge.deviation(None, dict(
                render_filter(case, which, flt),
                what='%s with a datetime denoting %s: expected %r, got %r'
                % (case['entry'], which, exp, got), operand_datetime=pretty(X),
                expected=exp, got=got), rank=nest.depth * 1000 + len(enc(flt)))

# operands of update operators that act as queries on array contents
def _q_add_to_set_dedupe(c, same, other):
    c.update_one({'_id': 1}, {'$addToSet': {'arr': same}})
    n1 = len(raw_docs(c)[0]['arr'])
    c.update_one({'_id': 1}, {'$addToSet': {'arr': {'$each': [same, other]}}})
    return [n1, len(raw_docs(c)[0]['arr'])], [2, 3]


def _q_pull(c, same, other):
    c.update_one({'_id': 1}, {'$pull': {'arr': other}})
    n1 = len(raw_docs(c)[0]['arr'])
    c.update_one({'_id': 1}, {'$pull': {'arr': same}})
    return [n1, len(raw_docs(c)[0]['arr'])], [2, 1]


def _q_pull_all(c, same, other):
    c.update_one({'_id': 1}, {'$pullAll': {'arr': [other]}})
    n1 = len(raw_docs(c)[0]['arr'])
    c.update_one({'_id': 1}, {'$pullAll': {'arr': [same, 'zz']}})
    return [n1, len(raw_docs(c)[0]['arr'])], [2, 1]


def _q_pull_in(c, same, other):
    c.update_one({'_id': 1}, {'$pull': {'arr': {'$in': [other]}}})
    n1 = len(raw_docs(c)[0]['arr'])
    c.update_one({'_id': 1}, {'$pull': {'arr': {'$in': [same]}}})
    return [n1, len(raw_docs(c)[0]['arr'])], [2, 1]

ARRAY_QUERIES = [('$addToSet dedupe', _q_add_to_set_dedupe), ('$pull', _q_pull),
                 ('$pullAll', _q_pull_all), ('$pull $in', _q_pull_in)]

ARRAYQ_BY_NAME = dict(ARRAY_QUERIES)


def arrayq_case(seed, name=None):
    r = random.Random(seed)
    dg = g.DateGen(r)
    if name is None:
        name = r.choice(ARRAY_QUERIES)[0]
    # `$in` with an array operand is C01's `arrayoperand` matter: keep the item a bare datetime
    nest = g.Nest(r, 0 if name == '$pull $in' else r.choice([0, 0, 1, 2]), dg, decoy_dates=False)
    d = dg.date()
    return {'kind': 'arrayq', 'case_seed': seed, 'name': name, 'nest': nest, 'date': d,
            'same': dg.equivalent(d), 'other': dg.other(d)}


def run_arrayq(ctx, judge, case):
    nest = case['nest']
    c = fresh()
    c.insert_one({'_id': 1, 'arr': ['x', nest.wrap(case['date'])]})
    judge.seen('filter', case['name'], nest.signature(), nest.depth,
               case['same'] if g.nontrivial_date(case['same']) else case['date'],
               enc([nest.wrap(case['date']), case['same'], case['other']]))
    rep = {'kind': 'arrayq', 'case_seed': case['case_seed'], 'operator': case['name'],
           'stored_item': pretty(nest.wrap(case['date'])),
           'same_millisecond_operand': pretty(nest.wrap(case['same'])),
           'other_millisecond_operand': pretty(nest.wrap(case['other']))}
    try:
        got, exp = ARRAYQ_BY_NAME[case['name']](c, nest.wrap(case['same']), nest.wrap(case['other']))
    except Exception as e:  # pylint: disable=broad-except
        judge.errors['arrayq:' + wire.err_name(e)] += 1
        judge.deviation(None, dict(rep, what='raised %s: %s' % (type(e).__name__, e)))
        return
    if got != exp:
        judge.deviation(None, dict(rep, what='%s treats equivalent datetimes inconsistently: array '
                                   'lengths %r, expected %r' % (case['name'], got, exp)),
                        rank=nest.depth * 1000)
    for x in g.dates_of(raw_docs(c)):
        if not g.is_normal(x):
            judge.deviation(None, dict(rep, what='stored datetime %r not normal' % (x,)))


# ================================================================================================
# (b3) read paths
# ================================================================================================
def _r_find(c, case):
    return list(c.find({}))


def _r_find_one(c, case):
    return c.find_one({'_id': 1})


def _r_find_projection(c, case):
    return list(c.find({}, {'f': 1}))


def _r_find_sort(c, case):
    return list(c.find({}).sort('_id', -1).limit(1))


def _r_find_filter_date(c, case):
    p = '.'.join(['f'] + case['nest'].path)
    return list(c.find({p: case['same']}))


def _r_cursor_next(c, case):
    cur = c.find({})
    return [next(cur), cur[0]]


def _r_agg_match(c, case):
    return list(c.aggregate([{'$match': {'_id': 1}}]))


def _r_agg_project(c, case):
    return list(c.aggregate([{'$project': {'f': 1, 'z': '$f'}}]))


def _r_agg_add_fields(c, case):
    return list(c.aggregate([{'$addFields': {'z': {'w': '$f'}}}]))


def _r_agg_group(c, case):
    return list(c.aggregate([{'$group': {'_id': '$k', 'all': {'$push': '$f'},
                                         'first': {'$first': '$f'}}}]))


def _r_agg_sort_limit(c, case):
    return list(c.aggregate([{'$sort': {'_id': 1}}, {'$limit': 1}]))


def _r_agg_lookup(c, case):
    return list(c.aggregate([{'$lookup': {'from': 'c', 'localField': 'k', 'foreignField': 'k',
                                          'as': 'j'}}]))


def _r_agg_facet(c, case):
    return list(c.aggregate([{'$facet': {'x': [{'$match': {}}]}}]))


def _r_agg_replace_root(c, case):
    return list(c.aggregate([{'$replaceRoot': {'newRoot': {'n': '$f'}}}]))


def _r_agg_unwind(c, case):
    return list(c.aggregate([{'$unwind': '$u'}]))


def _r_agg_literal(c, case):
    return list(c.aggregate([{'$addFields': {'lit': {'$literal': case['literal']}}}]))


def _r_distinct(c, case):
    return c.distinct('f')


def _r_distinct_path(c, case):
    p = '.'.join(['f'] + [x for x in case['nest'].path])
    return c.distinct(p)


def _r_distinct_filter(c, case):
    return c.distinct('f', {'_id': 1})


def _r_foau_before(c, case):
    return c.find_one_and_update({'_id': 1}, {'$set': {'k': 'y'}})


def _r_foau_after(c, case):
    return c.find_one_and_update({'_id': 1}, {'$set': {'g': case['W2']}},
                                 return_document=ReturnDocument.AFTER)


def _r_foar_before(c, case):
    return c.find_one_and_replace({'_id': 1}, {'f': case['W2']})


def _r_foar_after(c, case):
    return c.find_one_and_replace({'_id': 1}, {'f': case['W2']},
                                  return_document=ReturnDocument.AFTER)


def _r_foad(c, case):
    return c.find_one_and_delete({'_id': 1})


def _r_foau_upsert_after(c, case):
    return c.find_one_and_update({'_id': 9}, {'$set': {'f': case['W2']}}, upsert=True,
                                 return_document=ReturnDocument.AFTER)


def _r_foau_date_id(c, case):
    c.insert_one({'_id': case['date'], 'k': 'z'})
    return c.find_one_and_update({'k': 'z'}, {'$set': {'h': 1}}, sort=[('k', 1)],
                                 return_document=ReturnDocument.AFTER)

READ_PATHS = [
    ('find', _r_find), ('find_one', _r_find_one), ('find projection', _r_find_projection),
    ('find sort limit', _r_find_sort), ('find by date', _r_find_filter_date),
    ('cursor next / index', _r_cursor_next),
    ('aggregate $match', _r_agg_match), ('aggregate $project', _r_agg_project),
    ('aggregate $addFields', _r_agg_add_fields), ('aggregate $group', _r_agg_group),
    ('aggregate $sort $limit', _r_agg_sort_limit), ('aggregate $lookup', _r_agg_lookup),
    ('aggregate $facet', _r_agg_facet), ('aggregate $replaceRoot', _r_agg_replace_root),
    ('aggregate $unwind', _r_agg_unwind), ('aggregate literal', _r_agg_literal),
    ('distinct', _r_distinct), ('distinct path', _r_distinct_path),
    ('distinct filter', _r_distinct_filter),
    ('find_one_and_update before', _r_foau_before), ('find_one_and_update after', _r_foau_after),
    ('find_one_and_replace before', _r_foar_before), ('find_one_and_replace after', _r_foar_after),
    ('find_one_and_delete', _r_foad), ('find_one_and_update upsert after', _r_foau_upsert_after),
    ('find_one_and_update datetime _id', _r_foau_date_id),
]
READ_BY_NAME = dict(READ_PATHS)


def read_case(seed, name=None, tz=None):
    r = random.Random(seed)
    dg = g.DateGen(r)
    if name is None:
        name = r.choice(READ_PATHS)[0]
    if tz is None:
        tz = r.random() < 0.6
    nest = g.Nest(r, r.choice([0, 1, 1, 2, 2, 3]), dg)
    if name in ('distinct', 'distinct filter'):
        # distinct over values holding arrays of arrays / arrays of documents raises "unhashable
        # type" (not a datetime matter): below the first level use documents only; the deep
        # array positions are reached by 'distinct path'
        nest.layers[1:] = [l if l[0] in ('doc', 'odoc') else ('doc', r.choice(g.KEYS), [], [])
                           for l in nest.layers[1:]]
    d = dg.date()
    d2 = dg.date()
    return {'kind': 'read', 'case_seed': seed, 'path': name, 'tz': tz, 'nest': nest, 'date': d,
            'same': dg.equivalent(d), 'W2': g.Nest(r, r.choice([0, 1, 2]), dg).wrap(d2),
            'literal': dg.date()}


def render_read(case):
    return {'kind': 'read', 'case_seed': case['case_seed'], 'path': case['path'],
            'tz_aware': case['tz'], 'stored_from': pretty(case['nest'].wrap(case['date'])),
            'nesting': case['nest'].signature()}


def run_read(ctx, judge, case):
    c = fresh(case['tz'])
    nest = case['nest']
    W = nest.wrap(case['date'])
    c.insert_one({'_id': 1, 'k': 'x', 'f': copy.deepcopy(W), 'u': [copy.deepcopy(W), 1]})
    c.insert_one({'_id': 2, 'k': 'x', 'f': [case['date']]})
    judge.seen('read', '%s tz_aware=%s' % (case['path'], case['tz']), nest.signature(), nest.depth,
               case['date'], enc(W))
    rep = render_read(case)
    stored_ms = sorted(g.ms_of(x) for x in g.dates_of(raw_docs(c)))
    try:
        res = READ_BY_NAME[case['path']](c, case)
    except Exception as e:  # pylint: disable=broad-except
        judge.errors['read:' + wire.err_name(e)] += 1
        judge.deviation(None, dict(rep, what='read path %s raised %s: %s'
                                  % (case['path'], type(e).__name__, e)),
                        rank=nest.depth * 1000)
        return
    devs = []
    ds = g.dates_of(res)
    allowed = set(stored_ms) | set(g.ms_of(x) for x in g.dates_of(case['W2'])) \
        | {g.ms_of(case['date'])}
    if case['path'] == 'aggregate literal':
        allowed.add(g.ms_of(case['literal']))
    for x in ds:
        ok = g.is_aware_utc(x) if case['tz'] else x.tzinfo is None
        whole = x.microsecond % 1000 == 0
        known_ms = g.ms_of(x) in allowed
        if not (ok and whole and known_ms):
            devs.append('%r is not %s' % (x, 'aware UTC with whole milliseconds of a stored instant'
                                          if case['tz'] else
                                          'naive with whole milliseconds of a stored instant'))
    if not ds and case['path'] not in ('find_one_and_update upsert after',):
        devs.append('the read returned no datetime at all: %r' % (res,))
    if devs:
        judge.deviation(None, dict(rep, what='read path %s under tz_aware=%s returns datetimes that '
                                   'are not %s' % (case['path'], case['tz'],
                                                   'aware UTC' if case['tz'] else 'naive UTC'),
                                   deviations=devs[:6], result=pretty(res)),
                        rank=nest.depth * 1000 + len(enc(W)))


# ================================================================================================
# (b4) aggregation pipelines: datetimes written in them, read by them, computed by them
# ================================================================================================
VALUE_BY_NAME = {n: (sh, b) for n, sh, b in g.VALUE_POSITIONS}
COMPARE_BY_NAME = {n: (b, e) for n, b, e in g.COMPARE_POSITIONS}
COMPUTED_BY_NAME = dict(g.COMPUTED_POSITIONS)
TZS = (False, True)


def agg_case(seed, part, name):
    """part: 'value' | 'compare' | 'computed'; every case runs under both tz_aware settings"""
    r = random.Random(seed)
    dg = g.DateGen(r)
    d = dg.date()
    case = {'kind': 'agg', 'case_seed': seed, 'part': part, 'position': name, 'dg': dg,
            'date': d, 'far': dg.far()}
    if part == 'value':
        shape = VALUE_BY_NAME[name][0]
        nest = g.Nest(r, 0 if shape == 'bare' else r.choice([0, 0, 1, 1, 2, 3]), dg)
        x = r.random()
        lit = dg.date() if x < 0.6 else dg.equivalent(d) if x < 0.8 else dg.other(d)
        lit2 = dg.date()
        nest2 = g.Nest(r, 0 if shape == 'bare' else r.choice([0, 0, 1]), dg)
        case.update(nest=nest, literal=lit, L=nest.wrap(lit), L2=nest2.wrap(lit2),
                    L_same=nest.wrap(dg.equivalent(lit)), L2_same=nest2.wrap(dg.equivalent(lit2)))
    elif part == 'compare':
        case.update(nest=g.Nest(r, 0, dg), same=dg.equivalent(d), other=dg.other(d))
    else:
        # an instant of whole milliseconds, written as parts; the millisecond part sometimes
        # outside 0..999 (it carries over, 8825a6b); mostly next to the stored datetime
        x = r.random()
        ms = g.ms_of(d) + r.choice([0, 0, 1, -1, 1000, -86400000]) if x < 0.5 \
            else dg.instant_us() // 1000
        carry = r.choice([0, 0, 0, 1, 2, -1, 5]) * 1000 if r.random() < 0.4 else 0
        base = g.from_ms(ms - carry)
        parts = collections.OrderedDict([
            ('year', base.year), ('month', base.month), ('day', base.day), ('hour', base.hour),
            ('minute', base.minute), ('second', base.second),
            ('millisecond', base.microsecond // 1000 + carry)])
        if parts['millisecond'] == 0 and r.random() < 0.5:
            del parts['millisecond']
        case.update(nest=g.Nest(r, 0, dg), t=g.from_ms(ms), parts=dict(parts),
                    n=r.choice([0, 1, -1, 999, 1000, 86400000, -3600000, r.randrange(-10**9, 10**9)]),
                    X=dg.date())
    return case


def render_agg(case, **more):
    rep = {'kind': 'agg', 'case_seed': case['case_seed'], 'part': case['part'],
           'position': case['position'], 'stored_datetime': pretty(case['date'])}
    if case['part'] == 'value':
        rep.update(written_value=pretty(case['L']), second_written_value=pretty(case['L2']),
                   nesting=case['nest'].signature())
    elif case['part'] == 'compare':
        rep.update(same_millisecond=pretty(case['same']), another_millisecond=pretty(case['other']))
    else:
        rep.update(parts=case['parts'], computed_instant=pretty(case['t']), n=case['n'],
                   written_datetime=pretty(case['X']))
    rep.update(more)
    return rep


def _agg_setup(case, tz):
    cl = mongomock.MongoClient(tz_aware=tz)
    d, far = case['date'], case['far']
    cl.db.c.insert_one({'_id': 1, 'k': 'x', 'f': d, 'u': [d, 1]})
    cl.db.c.insert_one({'_id': 2, 'k': 'x', 'f': far, 'u': []})
    cl.db.o.insert_many([{'_id': 5, 'f': d}, {'_id': 6, 'f': far}])
    return cl


class Run(object):
    """one `list(collection.aggregate(pipeline))` with what went through process_pipeline at top
    level: the documents and the pipeline it was handed, the results it returned"""

    def __init__(self, cl, pipeline):
        self.handed = self.input = self.inner = None
        real = _mm_aggregate.process_pipeline
        depth = [0]

        def spy(collection, database, pl, session):
            if depth[0]:
                return real(collection, database, pl, session)
            depth[0] += 1
            try:
                self.handed = pl
                self.input = enc(list(collection))
                out = list(real(collection, database, pl, session))
                self.inner = copy.deepcopy(out)
                return _mm_aggregate.command_cursor.CommandCursor(out)
            finally:
                depth[0] -= 1
        self.stored = enc(raw_docs(cl.db.c))
        try:
            with mock.patch.object(_mm_aggregate, 'process_pipeline', spy):
                self.res = list(cl.db.c.aggregate(pipeline))
            self.error = None
        except Exception as e:  # pylint: disable=broad-except
            self.res = None
            self.error = '!%s: %s' % (type(e).__name__, e)


def _snapshot(pipeline):
    """exact rendering of a pipeline object, tuples told from lists"""
    return enc(pipeline) + (' #tuples' if g.has_tuple(pipeline) else '')


class Pending(object):
    """correspondence checks waiting for the model's answers"""

    def __init__(self):
        self.items = []       # (driver line, python fields, rule fields, replay, what is compared)

    def add(self, line, py, spec, rep, what):
        self.items.append((line, py, spec, rep, what))

    def settle(self, ctx):
        out = wire.run_driver([it[0] for it in self.items]) if self.items else []
        for (line, py, spec, rep, what), ans in zip(self.items, out):
            m = [x.strip() for x in ans.split('|')]
            if len(m) != len(py):
                raise RuntimeError('driver answered %r to %r' % (ans, line[:200]))
            if m != py:
                if py == spec:
                    ctx.notes.append('model stale but python follows the rule (%s): %s'
                                     % (what, line[:200]))
                else:
                    ctx.violation(dict(rep, what='correspondence: %s' % what, py=py, impl=m,
                                       spec=spec), rank=len(line))
            elif m != spec:
                raise RuntimeError('the Lean model and the Python oracle disagree where python and '
                                   'the model agree (%s; theorem contradicted?) %r' % (what, rep))
        self.items = []


def _check_plumbing(judge, pending, case, rep, tz, pipeline, before, run):
    """what process_pipeline is handed and what becomes of its results: python-only oracle and
    model correspondence; the caller's pipeline object is left alone"""
    if run.handed is None:
        return
    rep = dict(rep, tz_aware=tz)
    e_py = enc(run.handed)
    e_spec = enc(g.spec_patch(pipeline))
    if e_py != e_spec or g.has_tuple(run.handed):
        judge.deviation(None, dict(rep, what='aggregate hands process_pipeline a pipeline whose '
                                   'datetimes are not naive UTC milliseconds', handed=e_py,
                                   rule=e_spec), rank=len(e_py))
    if run.input != run.stored:
        judge.deviation(None, dict(rep, what='aggregate does not run over the documents as stored',
                                   input=run.input, stored=run.stored), rank=len(run.input))
    if _snapshot(pipeline) != before:
        judge.deviation(None, dict(rep, what='aggregate wrote to the pipeline object it was given'))
    if pending is not None and tz:              # the prepared pipeline does not depend on tz
        pending.add('aggpipe ' + before.replace(' #tuples', ''), [e_py, 'T'], [e_spec, 'T'], rep,
                    'the pipeline handed to process_pipeline ~ MongoModel.aggPipeline')
    if run.inner is None or run.res is None:
        return
    e_res = enc(run.res)
    e_rule = enc(g.spec_aware(run.inner) if tz else run.inner)
    if e_res != e_rule:
        judge.deviation(None, dict(rep, what='the results of process_pipeline do not reach the caller '
                                   'as they are (tz_aware=False), resp. aware UTC at every depth '
                                   '(tz_aware=True)', got=e_res, rule=e_rule), rank=len(e_res))
    if pending is not None:
        form = 'T' if all(g.is_read_form(x, tz) for x in g.dates_of(run.res)) else 'F'
        raw = 'T' if all(g.is_read_form(x, tz) for x in g.dates_of(run.inner)) else 'F'
        pending.add('aggres %s %s' % ('T' if tz else 'F', enc(run.inner)), [e_res, form, raw],
                    [e_rule, form, raw], rep,
                    'the results handed to the caller ~ MongoModel.aggResult (and the predicate '
                    'ReadForm ~ the oracle)')


def _result_form_devs(case, tz, res, pipeline, extra_ms=()):
    """every datetime of a result: read form of the client, a millisecond that was stored or
    written (or is listed in extra_ms)"""
    allowed = {g.ms_of(case['date']), g.ms_of(case['far'])} | set(extra_ms) \
        | set(g.ms_of(x) for x in g.dates_of(pipeline))
    devs = []
    for x in g.dates_of(res):
        if not g.is_read_form(x, tz):
            devs.append('%r is not %s with whole milliseconds' % (x, 'aware UTC' if tz else 'naive'))
        elif g.ms_of(x) not in allowed:
            devs.append('%r denotes a millisecond that was neither stored nor written' % (x,))
    return devs


def _check_both(judge, rep, runs, what):
    """tz_aware acts on the form of the results only (theorem aggregate_tz_only_rebuilds_results)"""
    a, b = runs[False], runs[True]
    if (a.error is None) != (b.error is None) or (a.error and a.error != b.error):
        judge.deviation(None, dict(rep, what='%s: one client gets an error, the other does not'
                                   % what, tz_aware_false=a.error or 'results',
                                   tz_aware_true=b.error or 'results'), rank=1)
    elif a.error is None and enc(b.res) != enc(g.spec_aware(a.res)):
        judge.deviation(None, dict(rep, what='%s: the results of the tz_aware=True client are not '
                                   'those of the tz_aware=False client made aware UTC' % what,
                                   tz_aware_false=pretty(a.res), tz_aware_true=pretty(b.res)),
                        rank=len(enc(a.res)))


def run_agg(ctx, judge, case, pending=None):
    """pending: a Pending collecting the model correspondences, or None (no driver)"""
    name = case['position']
    nest = case['nest']
    if case['part'] == 'value':
        build = VALUE_BY_NAME[name][1]
        judge.seen('agg', name, nest.signature(), nest.depth + 1, case['literal'], enc(case['L']))
        rep = render_agg(case)
        stored = name == '$out'
        runs = {}
        for tz in TZS:
            pipeline, locate = build(copy.deepcopy(case['L']), copy.deepcopy(case['L2']))
            before = _snapshot(pipeline)
            cl = _agg_setup(case, tz)
            run = runs[tz] = Run(cl, pipeline)
            _check_plumbing(judge, pending, case, rep, tz, pipeline, before, run)
            if run.error:
                judge.errors['agg:' + run.error.split(':')[0]] += 1
                judge.deviation(None, dict(rep, tz_aware=tz, what='aggregate raised %s' % run.error,
                                           pipeline=pretty(pipeline)), rank=nest.depth * 1000)
                continue
            res = run.res
            devs = _result_form_devs(case, tz, res, pipeline)
            try:
                pairs = locate(res, cl)
            except Exception as e:  # pylint: disable=broad-except
                pairs = []
                devs.append('the result has not the expected layout (%s): %r'
                            % (type(e).__name__, res))
            if not pairs and not devs:
                devs.append('the written value does not appear in the result: %r' % (res,))
            for found, written in pairs:
                exp = g.spec_patch(written) if stored else g.spec_read(written, tz)
                if enc(found) != enc(exp):
                    devs.append('written %s: %s %s, the rule gives %s'
                                % (enc(written), 'stored' if stored else 'returned', enc(found),
                                   enc(exp)))
            if stored:
                for x in g.dates_of(raw_docs(cl.db.outc)):
                    if not g.is_normal(x):
                        devs.append('$out stored %r' % (x,))
            if devs:
                judge.deviation(None, dict(rep, tz_aware=tz, what='a datetime written in the '
                                           'pipeline at %s does not come out as UTC milliseconds '
                                           'in the form of this client (tz_aware=%s)' % (name, tz),
                                           deviations=devs[:6], pipeline=pretty(pipeline),
                                           result=pretty(res)),
                                rank=nest.depth * 1000 + len(before))
                continue
            if tz != bool(case['case_seed'] & 1):
                continue
            # an equivalent way of writing the same milliseconds: the same aggregation
            pipeline2, _ = build(copy.deepcopy(case['L_same']), copy.deepcopy(case['L2_same']))
            cl2 = _agg_setup(case, tz) if stored else cl      # only $out writes
            run2 = Run(cl2, pipeline2)
            same = (run2.error is None and enc(run2.res) == enc(res)
                    and (run.handed is None or enc(run2.handed) == enc(run.handed)))
            if stored and same:
                same = enc(raw_docs(cl2.db.outc)) == enc(raw_docs(cl.db.outc))
            if not same:
                judge.deviation(None, dict(rep, tz_aware=tz, what='the same milliseconds written '
                                           'another way at %s give another aggregation' % name,
                                           pipeline=pretty(pipeline),
                                           other_pipeline=pretty(pipeline2), result=pretty(res),
                                           other_result=pretty(run2.res or run2.error)),
                                rank=nest.depth * 1000 + len(before))
        _check_both(judge, rep, runs, name)
    elif case['part'] == 'compare':
        build, expect = COMPARE_BY_NAME[name]
        judge.seen('agg', name, '', 1,
                   case['same'] if g.nontrivial_date(case['same']) else case['date'],
                   enc([case['date'], case['same'], case['other']]))
        a = g.ms_of(case['date'])
        cls = dict((tz, _agg_setup(case, tz)) for tz in TZS)     # the comparisons write nothing
        for which, X in (('the same millisecond', case['same']),
                         ('another millisecond', case['other'])):
            rep = render_agg(case, operand=which, operand_datetime=pretty(X))
            runs = {}
            for tz in TZS:
                pipeline, observe = build(copy.deepcopy(X))
                pipeline = g.subst_stored(pipeline, case['date'])
                before = _snapshot(pipeline)
                run = runs[tz] = Run(cls[tz], pipeline)
                _check_plumbing(judge, pending, case, rep, tz, pipeline, before, run)
                exp = expect(a, g.ms_of(X), tz)
                if run.error:
                    judge.errors['agg:' + run.error.split(':')[0]] += 1
                    got = run.error
                else:
                    try:
                        got = observe(run.res)
                    except Exception as e:  # pylint: disable=broad-except
                        got = '!layout %s: %r' % (type(e).__name__, run.res)
                if name == 'field op literal' and pending is not None:
                    pending.add('cmpdate %s %s' % (enc(case['date']), enc(X)),
                                _cmp_fields(got), ['T' if x else 'F' for x in exp],
                                dict(rep, tz_aware=tz), 'a field compared with a written datetime '
                                '~ Expr.compareOp on aggInput / aggPipeline')
                if enc(got) != enc(exp):
                    judge.deviation(None, dict(rep, tz_aware=tz, what='%s against a written '
                                               'datetime denoting %s under tz_aware=%s: expected '
                                               '%r, got %r' % (name, which, tz, pretty(exp),
                                                               pretty(got)),
                                               pipeline=pretty(pipeline)), rank=len(before))
                elif not run.error:
                    devs = _result_form_devs(case, tz, run.res, pipeline,
                                             extra_ms=[g.ms_of(g.LO)])
                    if devs:
                        judge.deviation(None, dict(rep, tz_aware=tz, what='%s returns datetimes not '
                                                   'in the form of this client' % name,
                                                   deviations=devs[:6], result=pretty(run.res)),
                                        rank=len(before))
            _check_both(judge, rep, runs, name)
    else:
        build = COMPUTED_BY_NAME[name]
        judge.seen('agg', name, '', 1, case['X'] if name.startswith('literal') else case['date'],
                   enc([case['date'], case['X'], case['t'], case['n']]))
        rep = render_agg(case)
        runs = {}
        for tz in TZS:
            pipeline, observe, expect = build(case)
            before = _snapshot(pipeline)
            cl = _agg_setup(case, tz)
            run = runs[tz] = Run(cl, pipeline)
            _check_plumbing(judge, pending, case, rep, tz, pipeline, before, run)
            exp = expect(tz)
            if run.error:
                judge.errors['agg:' + run.error.split(':')[0]] += 1
                got = run.error
            elif observe is None:
                got = raw_docs(cl.db.outc)
            else:
                try:
                    got = observe(run.res)
                except Exception as e:  # pylint: disable=broad-except
                    got = '!layout %s: %r' % (type(e).__name__, run.res)
            if name == 'field op $dateFromParts' and pending is not None:
                pending.add('cmpdate %s %s' % (enc(case['date']), enc(case['t'])),
                            _cmp_fields(got[:6] if isinstance(got, list) else got),
                            ['T' if x else 'F' for x in exp[:6]], dict(rep, tz_aware=tz),
                            'a field compared with a computed datetime ~ Expr.compareOp on '
                            'aggInput and a naive datetime')
            if enc(got) != enc(exp):
                judge.deviation(None, dict(rep, tz_aware=tz, what='%s under tz_aware=%s: the rule '
                                           'gives %r, got %r' % (name, tz, pretty(exp), pretty(got)),
                                           pipeline=pretty(pipeline)), rank=len(before))
            elif not run.error:
                devs = [d for d in _result_form_devs(case, tz, run.res, pipeline)
                        if 'neither stored nor written' not in d]
                if devs:
                    judge.deviation(None, dict(rep, tz_aware=tz, what='%s returns datetimes not in '
                                               'the form of this client' % name,
                                               deviations=devs[:6], result=pretty(run.res)),
                                    rank=len(before))
        _check_both(judge, rep, runs, name)


def _cmp_fields(got):
    """six comparison answers (or an error) as the driver prints them"""
    if isinstance(got, str):
        return ['!' + got.split(':')[0][1:]] * 6
    if not isinstance(got, list) or len(got) != 6:
        return [repr(got)] * 6
    return ['T' if x is True else 'F' if x is False else repr(x) for x in got]


# ================================================================================================
# run / replay
# ================================================================================================
KINDS = {
    'write': (write_case, run_write, 'path'),
    'filter': (filter_case, run_filter, None),
    'arrayq': (arrayq_case, run_arrayq, 'name'),
    'read': (read_case, run_read, None),
}


def run(ctx, proof, driver_ok):
    rng = random.Random(ctx.seed * 1000003 + 1801)
    judge = Judge(ctx)
    wire_ok = driver_ok
    n_corr = ctx.n(20000, 300000)
    n_write = ctx.n(250, 3000)       # per write path
    n_filter = ctx.n(50, 600)        # per entry point x form (two queries each)
    n_arrayq = ctx.n(500, 5000)      # per operator
    n_read = ctx.n(120, 1500)        # per read path x tz
    n_agg = ctx.n(24, 400)           # per pipeline position (each case under both tz settings)
    run_fixed(ctx, judge, wire_ok)
    if wire_ok:
        done = 0
        while done < n_corr and not ctx.too_many():
            k = min(5000, n_corr - done)
            run_corr(ctx, judge, [rng.getrandbits(48) for _ in range(k)])
            done += k
    else:
        ctx.notes.append('model driver unavailable: helper correspondence not run')
    for name, _, _ in WRITE_PATHS:
        for _ in range(n_write):
            if ctx.too_many():
                break
            case = write_case(rng.getrandbits(48), name)
            run_write(ctx, judge, case)
            _sample(judge, render_write(case), case)
    for ename, _, _ in ENTRY_POINTS:
        for fname, _, _ in FILTER_FORMS:
            for _ in range(n_filter):
                if ctx.too_many():
                    break
                case = filter_case(rng.getrandbits(48), ename, fname)
                run_filter(ctx, judge, case)
                _sample(judge, render_filter(case), case)
    for name, _ in ARRAY_QUERIES:
        for _ in range(n_arrayq):
            if ctx.too_many():
                break
            run_arrayq(ctx, judge, arrayq_case(rng.getrandbits(48), name))
    for name, _ in READ_PATHS:
        for tz in (False, True):
            for _ in range(n_read):
                if ctx.too_many():
                    break
                case = read_case(rng.getrandbits(48), name, tz)
                run_read(ctx, judge, case)
                _sample(judge, render_read(case), case)
    agg_positions = [('value', n) for n, _, _ in g.VALUE_POSITIONS] \
        + [('compare', n) for n, _, _ in g.COMPARE_POSITIONS] \
        + [('computed', n) for n, _ in g.COMPUTED_POSITIONS]
    cases = []
    for part, name in agg_positions:
        cases.extend(agg_case(rng.getrandbits(48), part, name) for _ in range(n_agg))
    for i in range(0, len(cases), 2000):           # one driver call per 2000 cases
        if ctx.too_many():
            break
        run_agg_batch(ctx, judge, cases[i:i + 2000], wire_ok)
    for case in cases:
        _sample(judge, render_agg(case), case)
    return {
        'evaluations': sum(judge.counts.values()),
        'distinct_nontrivial': len(judge.nontrivial),
        'rule': RULE,
        'samples': judge.samples,
        'evaluations_by_part': dict(judge.counts),
        'write_paths': len(WRITE_PATHS),
        'filter_entry_points': len(ENTRY_POINTS),
        'filter_forms': len(FILTER_FORMS),
        'read_paths': len(READ_PATHS),
        'pipeline_value_positions': len(g.VALUE_POSITIONS),
        'pipeline_compare_positions': len(g.COMPARE_POSITIONS),
        'pipeline_computed_positions': len(g.COMPUTED_POSITIONS),
        'repaired_findings_rerun': sorted(e['id'] for e in common.load_known('C18')
                                          if e.get('status') == 'fixed'),
        'cases_by_path': dict(judge.by_path),
        'nesting_depth_histogram': {str(k): v for k, v in sorted(judge.depths.items())},
        'deviations_by_class': dict(judge.classes),
        'python_error_kinds': dict(judge.errors),
        'helper_correspondence': 'run' if wire_ok else 'skipped (no driver)',
    }


def run_agg_batch(ctx, judge, cases, wire_ok):
    pending = Pending() if wire_ok else None
    for case in cases:
        if ctx.too_many():
            break
        run_agg(ctx, judge, case, pending)
    if pending is not None:
        pending.settle(ctx)


def _sample(judge, rep, case):
    if len(judge.samples) < 6 and case['nest'].depth >= 2 and g.nontrivial_date(case['date']) \
            and not any(s['kind'] == rep['kind'] for s in judge.samples[-2:]):
        judge.samples.append(rep)


def _rerun(ctx, judge, e):
    kind = e['kind']
    if kind == 'corr':
        run_corr(ctx, judge, [e['case_seed']])
        return
    if kind == 'regression':
        run_fixed(ctx, judge, os.path.exists(wire.DRIVER), only=e['finding'])
        return
    if kind == 'agg':
        run_agg_batch(ctx, judge, [agg_case(e['case_seed'], e['part'], e['position'])],
                      os.path.exists(wire.DRIVER))
        return
    mk, runner, _ = KINDS[kind]
    if kind == 'write':
        case = mk(e['case_seed'], e['path'])
    elif kind == 'filter':
        case = mk(e['case_seed'], e['entry_point'], e['filter_form'])
    elif kind == 'arrayq':
        case = mk(e['case_seed'], e['operator'])
    else:
        case = mk(e['case_seed'], e['path'], e['tz_aware'])
    runner(ctx, judge, case)


def replay(ctx, path):
    e = json.load(open(path))
    judge = Judge(ctx)
    judge.known = set()          # a replay shows the deviation whatever its class
    _rerun(ctx, judge, e)
    print(json.dumps({'replayed': {k: e[k] for k in e if k in (
        'kind', 'case_seed', 'path', 'entry_point', 'filter_form', 'operator', 'tz_aware',
        'part', 'position', 'finding')},
        'violations': len(ctx.violations),
        'what': [v[2].get('what') for v in ctx.violations][:3]}, default=repr))
    return common.finish(ctx)

# -- known findings and repaired findings ---------------------------------------------------------
# each function: does the recorded witness depart from the property on the real code?
def _finding_currentdate_raw(w):
    bad = []
    for key in ('wire_utcnow', 'wire_utcnow_aware'):
        c = fresh()
        c.insert_one({'_id': 1})
        _current_date(c, wire.dec(w[key]), {'f': True})
        bad.append(not g.is_normal(raw_docs(c)[0]['f']))
    return any(bad)


def _finding_tzaware_deepcopy(w):
    c = fresh(True)
    c.insert_one({'_id': 1, 'u': [wire.dec(w['wire_stored'])]})
    try:
        res = list(c.aggregate([{'$unwind': '$u'}]))
    except TypeError:
        return True
    return enc(res) != enc([{'_id': 1, 'u': g.spec_read(wire.dec(w['wire_stored']), True)}])


def _finding_aggregate_literal_raw(w):
    """the recorded pipeline ($addFields / $literal), then the same literal compared with a stored
    field and stored through $out — under both settings"""
    lit = wire.dec(w['wire_literal'])
    out = []
    for tz in (False, True):
        c = fresh(tz)
        c.insert_one({'_id': 1, 'f': lit})
        try:
            res = list(c.aggregate([{'$addFields': {'lit': {'$literal': lit}}}]))
            out.append(enc(res[0]['lit']) == enc(g.spec_read(lit, tz)))
            res = list(c.aggregate([{'$project': {'e': {'$eq': ['$f', lit]},
                                                  'g': {'$gt': ['$f', lit]}}}]))
            out.append(res == [{'_id': 1, 'e': True, 'g': False}])
            list(c.aggregate([{'$addFields': {'lit': [lit]}}, {'$out': 'outc'}]))
            raw = list(c.database.outc._store._documents.values())
            out.append(enc(raw) == enc([{'_id': 1, 'f': g.spec_patch(lit),
                                         'lit': [g.spec_patch(lit)]}]))
        except Exception:  # pylint: disable=broad-except
            out.append(False)
    return not all(out)


def _finding_tzaware_delete_date_id(w):
    c = fresh(True)
    c.insert_one({'_id': wire.dec(w['wire_id'])})
    try:
        return c.delete_one({'_id': wire.dec(w['wire_id'])}).deleted_count != 1
    except KeyError:
        return True


def _finding_aggregate_computed_raw(w):
    parts = w['parts']
    out = []
    for tz in (False, True):
        c = fresh(tz)
        c.insert_one({'_id': 1, 'f': wire.dec(w['wire_stored'])})
        try:
            res = list(c.aggregate([{'$project': {
                'x': {'$dateFromParts': parts},
                'lt': {'$lt': [{'$dateFromParts': parts}, '$f']}}}]))
            out.append(enc(res[0]['x']) == enc(g.spec_read(wire.dec(w['wire_rule']), tz))
                       and res[0]['lt'] is True)
        except Exception:  # pylint: disable=broad-except
            out.append(False)
    return not all(out)


FINDINGS = {
    'tzaware_delete_date_id': _finding_tzaware_delete_date_id,
    'currentdate_raw': _finding_currentdate_raw,
    'tzaware_deepcopy': _finding_tzaware_deepcopy,
    'aggregate_literal_raw': _finding_aggregate_literal_raw,
    'aggregate_computed_raw': _finding_aggregate_computed_raw,
}


def replay_finding(ctx, e):
    """does the listed witness still depart from the property on the real code?"""
    fn = FINDINGS.get(e['id'])
    if fn is None:
        return False
    try:
        return bool(fn(e['witness']))
    except Exception:  # pylint: disable=broad-except
        return True


def run_fixed(ctx, judge, wire_ok, only=None):
    """(c) the witnesses of the repaired findings, on every run: python must follow the rule on
    each of them (a defect that returns is a VIOLATION); the witness of aggregate_literal_raw
    goes through the model correspondence too"""
    for e in common.load_known('C18'):
        if e.get('status') != 'fixed' or (only and e['id'] != only):
            continue
        fn = FINDINGS.get(e['id'])
        if fn is None:
            ctx.violation({'kind': 'regression', 'finding': e['id'],
                           'what': 'no regression check for the repaired finding %s' % e['id']},
                          no_input=True)
            continue
        judge.counts['regression'] += 1
        try:
            back = bool(fn(e['witness']))
        except Exception as x:  # pylint: disable=broad-except
            back = 'raised %s: %s' % (type(x).__name__, x)
        if back:
            ctx.violation({'kind': 'regression', 'finding': e['id'], 'commit': e.get('commit'),
                           'what': 'the repaired finding %s is back: %s' % (e['id'], e['what']),
                           'witness': e['witness'], 'detail': back}, rank=0)
        if e['id'] in ('aggregate_literal_raw', 'aggregate_computed_raw'):
            # the witness through the plumbing checks and the model correspondence
            w = e['witness']
            if e['id'] == 'aggregate_literal_raw':
                lit = wire.dec(w['wire_literal'])
                pipeline = [{'$addFields': {'lit': {'$literal': lit}}}]
            else:
                pipeline = [{'$project': {'x': {'$dateFromParts': w['parts']},
                                          'lt': {'$lt': [{'$dateFromParts': w['parts']}, '$f']}}}]
            case = {'date': wire.dec(w.get('wire_stored', 't0')), 'far': LATE}
            pending = Pending() if wire_ok else None
            rep = {'kind': 'regression', 'finding': e['id']}
            runs = {}
            for tz in TZS:
                cl = _agg_setup(case, tz)
                runs[tz] = Run(cl, pipeline)
                _check_plumbing(judge, pending, case, rep, tz, pipeline, _snapshot(pipeline),
                                runs[tz])
            _check_both(judge, rep, runs, 'the witness of %s' % e['id'])
            if pending is not None:
                pending.settle(ctx)
