"""C09 — TTL indexes hide and remove exactly the documents whose date has expired.

Histories of writes, reads through every store-reading entry point, TTL index creation/removal
and clock movements (forwards and backwards, with boundary clocks) run on the real code under a
mocked `mongomock.utcnow` and on the Lean model.  Directly on python: an independent
implementation of the rule of the property decides, after every step, which documents must be
visible.

Only EXISTING TTL indexes expire documents: the index creations of a history carry every
combination of expireAfterSeconds / unique / sparse / partialFilterExpression and are often
refused (duplicates under the unique key, a name taken with other options).  A refused creation
must leave index_information() as it was, the TTL indexes it lists must be those that the
successful creations and removals of the history account for, and no document may vanish that
these indexes and the clock do not account for.
"""
import copy
import datetime as _dt
import sys

import common
import hist
import histcheck
from histcheck import freeze

ID = 'C09'
SALT = 909
RULE = ('history = 3-30 generated operations on one collection with TTL indexes (periods 0..30 s, '
        'float, numeric string and non-numeric periods, compound keys; nearly half of the index '
        'creations combine expireAfterSeconds / unique / sparse / partialFilterExpression, over '
        'documents that hold few distinct values, so that creations are refused as often as they '
        'succeed), documents whose TTL field '
        'holds (on insert, and after $set / $push) dates around the clock, flat arrays of dates '
        'and non-dates, arrays whose items are arrays again (1-3 levels deep, holding dates, '
        'strings, numbers, sub-documents or nothing - beside dates of their own or alone), arrays '
        'of sub-documents holding dates, empty arrays, non-dates or nothing - only the dates among '
        "an array's OWN items are dates of the field - and clock moves of "
        '+-1..200 s including exact boundary instants; after every step outcome and visible '
        'documents are compared with the Lean model, and an independent python rendering of the '
        'rule (shadow collection) says which documents must be visible; index_information() is '
        'read before and after every step: a refused creation leaves it unchanged, and its TTL '
        'entries are exactly those the successful creations / removals leave; non-trivial = at some '
        'step one document has expired and another carrying a date survives; distinct = by hash '
        'of the history')
ASSUMPTIONS = [
    'the clock is mongomock.utcnow mocked to a naive datetime; aware clocks are out of scope',
    'these histories draw no positional $ paths (the positional operator is modelled '
    'and judged under C02); a step the model '
    'answers unmodelled for cuts the history there',
]

known_labels = {e['id'] for e in common.load_known(ID) if e.get('status') == 'known'}


class Gen09(hist.HistGen):
    """some steps are not followed by the harness's own read (wrapped as ["noobs", op]), so that
    the code meets expired documents that nothing has removed yet"""

    def history(self, n):
        ops = []
        for _ in range(n):
            op = self.op()
            p = 0.5 if op[0] == 'clock' else 0.25
            ops.append(['noobs', op] if self.r.random() < p else op)
        return ops


def histgen(rng, oids):
    hg = Gen09(rng, oids, weights=dict(
        insert_one=20, insert_many=6, update_one=8, update_many=3, replace_one=3,
        delete_one=3, delete_many=2, find=5, count=4, distinct=3, create_index=9,
        drop_index=3, drop_indexes=2, drop=1, clock=14), ttl=True, embedded_ids=True)
    hg.ug.malformed = 0.02
    hg.ttl_options = 0.45
    return hg


def length(rng):
    return rng.choice([3, 6, 10, 15, 22, 30])


view = histcheck.full_view


def listing(pr, op):
    """what index_information() says (python-only observation, taken before every step and after
    every observed one): the oracle holds the library to its own listing"""
    try:
        return copy.deepcopy(pr.coll.index_information())
    except Exception as e:  # pylint: disable=broad-except
        return '!' + type(e).__name__


probe = pre_probe = listing


# ---- the rule, independently ------------------------------------------------------------------

def earliest(v):
    if isinstance(v, tuple) and v and v[0] == 'date':
        return int(v[1].split('@')[0]) if '@' not in v[1] else None
    if isinstance(v, list):
        ds = [earliest(x) for x in v if isinstance(x, tuple) and x and x[0] == 'date']
        ds = [d for d in ds if d is not None]
        return min(ds) if ds else None
    return None


def period(n):
    """the expiry period in seconds of an index option value, None = never expires"""
    if isinstance(n, bool):
        return int(n)
    if isinstance(n, (int, float)):
        return int(n)
    if isinstance(n, str):
        try:
            return int(n)
        except ValueError:
            return None
    return None


class Shadow(object):
    """tracks the TTL indexes from the operations and decides visibility from the rule"""

    def __init__(self):
        self.ttl = {}      # name -> (field, seconds) for single-field TTL indexes
        self.now = hist.T0

    def apply(self, st):
        op = st.op
        k = op[0]
        if k == 'clock':
            self.now = op[1]
        elif k == 'create_index' and st.out[0] != 'err':
            name = st.out[1]
            n = op[2].get('expireAfterSeconds')
            if n is not None:
                secs = period(n)
                if len(op[1]) == 1 and secs is not None:
                    self.ttl[name] = (op[1][0][0], secs)
                else:
                    self.ttl[name] = None
            else:
                self.ttl.pop(name, None)
        elif k == 'drop_index' and st.out[0] != 'err':
            self.ttl.pop(op[1], None)
        elif k in ('drop_indexes', 'drop'):
            self.ttl = {}

    def expired(self, doc, ttl=None):
        for spec in (self.ttl if ttl is None else ttl).values():
            if spec is None:
                continue
            field, secs = spec
            e = earliest(doc.get(field)) if isinstance(doc, dict) else None
            if e is not None and e + secs * 1000000 <= self.now:
                return True
        return False


# operations that neither add a document nor change one (they may remove: expiry)
NO_WRITE = ('clock', 'find', 'count', 'distinct', 'create_index', 'drop_index', 'drop_indexes')


def listed_ttl(info):
    """the TTL indexes that a listing (index_information()) accounts for, in the shadow's terms"""
    ttl = {}
    for name, ix in info.items():
        n = ix.get('expireAfterSeconds')
        if n is None:
            continue
        secs = period(n)
        keys = list(ix.get('key') or [])
        ttl[name] = (keys[0][0], secs) if len(keys) == 1 and secs is not None else None
    return ttl


def listing_after(steps, i):
    """index_information() after step i: taken right after an observed step, before the next
    step otherwise (None when the history ends there)"""
    ex = steps[i].extra or {}
    if 'probe' in ex:
        return ex['probe']
    if i + 1 < len(steps):
        return (steps[i + 1].extra or {}).get('pre')
    return None


def oracle(history, steps):
    fails = []
    sh = Shadow()
    prev_docs = []
    certain = ids_known = True
    uniq = False
    for i, st in enumerate(steps):
        ttl_before = dict(sh.ttl)
        sh.apply(st)
        # the indexes that exist are the indexes that are listed: a creation that raised leaves
        # the listing as it was, and the TTL indexes the listing accounts for are exactly those
        # the successful creations and removals of the history leave (so that every judgement
        # below - made from the operations - is the judgement index_information() + the clock
        # would give: nothing expires that no listed index accounts for)
        before, after = (st.extra or {}).get('pre'), listing_after(steps, i)
        if isinstance(after, dict):
            if st.op[0] == 'create_index' and st.out[0] == 'err' and isinstance(before, dict) \
                    and after != before:
                fails.append((i, 'failed-creation-listed', 'create_index raised %s and changed '
                              'index_information() from %r to %r' % (st.out[1], before, after)))
            if listed_ttl(after) != sh.ttl:
                fails.append((i, 'ttl-listing', 'after %s the TTL indexes listed by '
                              'index_information() are %r, the successful creations / removals '
                              'of the history leave %r' % (st.op[0], listed_ttl(after), sh.ttl)))
        elif after is not None:
            fails.append((i, 'observation', 'index_information() raised: %r' % (after,)))
        # a unique index may refuse an insert as well: those that exist when the step begins are
        # those the listing shows (an index that was dropped, or whose creation was refused, is
        # none)
        if isinstance(before, dict):
            uniq = any(ix.get('unique') for ix in before.values())
        # an insert may be refused as duplicate only by a VISIBLE document (or a unique index)
        if st.op[0] == 'insert_one' and st.out[0] == 'err' and st.out[1] == 'DuplicateKeyError' \
                and ids_known and not uniq and isinstance(st.op[1], dict) and '_id' in st.op[1]:
            if not any(d.get('_id') == st.op[1]['_id'] and not sh.expired(d) for d in prev_docs):
                fails.append((i, 'expired-blocks-insert', 'insert of _id %r refused at %d although '
                              'no visible document has it (ttl %r, documents %r)'
                              % (st.op[1]['_id'], sh.now, sh.ttl, prev_docs)))
        # the same inside an insert_many: a duplicate-key failure at position j needs a visible
        # document, or an earlier, unexpired document of the same batch, with that _id
        if st.op[0] == 'insert_many' and st.out[0] == 'err' and st.out[1] == 'BulkWriteError' \
                and ids_known and not uniq and isinstance(st.op[1], list) and \
                all(isinstance(d, dict) for d in st.op[1]):
            batch = [histcheck.canon_value(d, st.oids) for d in st.op[1]]
            failed = [w.get('index') for w in st.out[2].get('writeErrors', [])
                      if w.get('code') == 11000]
            for j in failed:
                if not isinstance(j, int) or j >= len(batch) or '_id' not in batch[j]:
                    continue
                bid = batch[j]['_id']
                earlier = [d for jj, d in enumerate(batch[:j]) if jj not in failed]
                if not any(d.get('_id') == bid and not sh.expired(d)
                           for d in list(prev_docs) + earlier):
                    fails.append((i, 'expired-blocks-insert', 'insert_many: document %d (_id %r) '
                                  'refused as duplicate at %d although no visible document has that '
                                  '_id (ttl %r)' % (j, bid, sh.now, sh.ttl)))
        if st.op[0] == 'create_index' and st.op[2].get('unique'):
            uniq = True
        if st.obs is None:
            # unobserved step: the last observation stays valid only across clock moves
            if st.op[0] != 'clock':
                certain = False
            # ... and as a SUPERSET of the documents an insert can collide with across the steps
            # that neither add nor change a document
            if st.op[0] not in NO_WRITE:
                ids_known = False
            if any(l not in known_labels for (_, l, _) in fails):
                break
            continue
        was_certain = certain
        certain = ids_known = True
        docs = st.obs.get('docs') if isinstance(st.obs, dict) else None
        if not isinstance(docs, list):
            fails.append((i, 'observation', 'find({}) raised: %r' % (docs,)))
            break
        for d in docs:
            if sh.expired(d):
                fails.append((i, 'visible-expired', 'expired document still visible at %d: %r '
                              '(ttl %r)' % (sh.now, d, sh.ttl)))
        # a document may only vanish through a delete, a drop, or because the rule says so
        if was_certain and st.op[0] in ('clock', 'find', 'count', 'distinct', 'insert_one',
                                        'insert_many', 'create_index', 'drop_index',
                                        'drop_indexes'):
            now_ids = {freeze(x.get('_id')) for x in docs if isinstance(x, dict)}
            for d in prev_docs:
                # (drop_index runs the expiry pass before it removes the index)
                if freeze(d.get('_id')) not in now_ids and not sh.expired(d) and not \
                        (st.op[0] in ('drop_index',) and sh.expired(d, ttl_before)):
                    fails.append((i, 'removed-unexpired', '%s made an unexpired document vanish '
                                  'at %d: %r (ttl %r)' % (st.op[0], sh.now, d, sh.ttl)))
        prev_docs = docs
        if any(l not in known_labels for (_, l, _) in fails) or len(fails) > 50:
            break
    return fails


def nontrivial(history, steps):
    sh = Shadow()
    prev = []
    for st in steps:
        sh.apply(st)
        if st.obs is None:
            continue
        docs = st.obs.get('docs') if isinstance(st.obs, dict) else None
        if not isinstance(docs, list):
            return False
        vanished = [d for d in prev if freeze(d.get('_id')) not in
                    {freeze(x.get('_id')) for x in docs}]
        if st.op[0] in ('clock', 'find', 'count', 'create_index') and vanished and \
                any(any(earliest(d.get(f)) is not None for f, _ in
                        [s for s in sh.ttl.values() if s]) for d in docs):
            return True
        prev = docs
    return False


run, replay, replay_finding = histcheck.module_api(sys.modules[__name__], 1000, 25000, fixed=True)
