"""C16 — aggregation is read-only, leaves its arguments alone, and is repeatable.

Direct oracles on /repo (every case): all collections (raw store, find, index_information,
collection names) and the pipeline object (value and identity of every nested container) before /
after; the SAME pipeline object run twice; every `$facet` branch against the same sub-pipeline run
alone on the stage's input; `$out` target == returned == prefix output (+ generated `_id`s);
`$sample` output a sub-multiset of its input of the requested size; scribbling on the returned
documents must not reach the store; a stage other than `$lookup` / `$out` / `$facet` leaves the
documents it is HANDED as they were (`$addFields`/`$set` on dotted names, `$unwind` with an index:
theorems `pure_stage_writes_nothing`, `stage_input_unchanged`); on a `tz_aware` twin of the database
(every third case) the results are a rebuild: no dict or list occurs twice in them, none belongs to
the caller's pipeline, the values are those of the plain run (`tz_aware_results_separate`,
`tz_aware_same_state`).

Correspondence (cases of the modelled fragment): every query of the case is also answered by the
heap model `MongoModel.AggHeap` (driver command `c16`), and the answers — outputs of both runs, the
pipeline object after each run, the collections afterwards, outputs of facet branches run alone —
must be equal.  The edit discipline of every stage handler is re-extracted from
mongomock/aggregate.py's syntax tree on every run (`lean/Generated/AggDiscipline.lean`) and must
equal the reference table the theorems are proved for.
"""
import collections
import copy
import json
import os
import random

import common
import c16_lib as L
import gen_c16
import wire

RULE = ('case = one generated pipeline (1-4 stages + optional $out; $facet with 2-3 branches of '
        '0-3 stages; grammar weighted towards document-editing stages; now and then a stage '
        'document with no or two operators; in the rich stream every '
        'stage that takes a document of options is generated with all the options it accepts: '
        '$graphLookup with restrictSearchWithMatch / depthField / maxDepth / expression-valued '
        'startWith / dotted connect fields, $bucket with default / output, and every filter '
        'document of the pipeline ($match, restrictSearchWithMatch) drawn from the filter grammar: '
        'operator documents, $in / $all lists, $elemMatch, $not, $and / $or / $nor lists, $expr) '
        'over a generated state of '
        'two or three collections, run twice from one pipeline object; non-trivial = the pipeline '
        'contains a document-editing stage ($addFields/$set on a dotted path, $lookup, '
        '$graphLookup, $unwind (with or without includeArrayIndex), $sample, $out, or $facet with '
        'an editing branch) and the first run '
        'does not raise; distinct = by hash of (state, pipeline)')

ASSUMPTIONS = [
    '$out: the returned documents carry the generated _ids that the target collection holds '
    '(MongoDB generates _ids for $out too); this is not counted as a change of the output',
    '$out is generated only as the last top-level stage; a $out whose insert_many raises '
    '(duplicate _id after $unwind) is not judged for target == output',
    'the heap model allocates identities of a run in a run-local name space (fresh by '
    'construction); $graphLookup, $bucket, $group, $match filters other than equalities on '
    'top-level fields, expression operators other than field paths, $$ROOT, '
    '$literal, document constructors and constants are outside the modelled fragment (direct '
    'oracles only: they are generated in the rich stream, which is never sent to the driver)',
    'correspondence: after a run that raises (same error on both sides) the pipeline object and '
    'the collections are not compared with the model, which does not keep the writes a failed '
    'call had already made; runs containing $sample are compared on raised / did not raise and '
    'on the pipeline object only',
    'input-unchanged is judged per stage on the real code for the first two top-level stages '
    'other than $lookup / $out / $facet / $sample whose prefix is deterministic',
    'repeatability is judged on two consecutive runs on the same database; when $out writes a '
    'collection the pipeline reads, the second run sees other data and is not compared; with '
    '$sample in the pipeline the two runs are two draws: their answers (and whether a later stage '
    'raises on the drawn documents) may differ as long as the pipeline object is unchanged',
]

EDITING = {'$lookup', '$graphLookup', '$unwind', '$sample', '$out', '$addFields', '$set'}
# stages that write into the documents they are handed / whose input is not compared
NOT_INPUT_JUDGED = {'$lookup', '$out', '$facet', '$sample', None}
# classes by which the judge NAMES a failure (all four were known findings of /repo and are
# repaired; a class is excused only while known_findings.json lists it with status "known",
# otherwise the named failure is a VIOLATION)
KNOWN_IDS = ('sample-pops-size', 'literal-written', 'facet-sibling-nested-addfields',
             'facet-sibling-lookup')


# Regression cases for the repairs of mongomock/aggregate.py this check FOLLOWS (defects of C03's
# value-level properties; here: the edit discipline they changed).  They run through every oracle
# and through the correspondence on every run, like the witnesses of C16's own fixed findings.
_S = {'a': [{'_id': 1, 'k': 1, 'a': {'x': 1, 'y': {'z': 2}}, 'arr': [{'p': 0}, {'p': 1}]},
            {'_id': 2, 'k': 2, 'arr': []}, {'_id': 3, 'a': 5, 'arr': None}, {'_id': 4, 'k': 0}],
      'b': [{'_id': 10, 'k': 1}], 'indexes': []}
FOLLOWED = [
    # eb8f57c: a field aliased to a sub-document, then written through a dotted name
    ('eb8f57c', [{'$addFields': {'b': '$a', 'b.z': 9}}]),
    ('eb8f57c', [{'$set': {'a.w': '$a', 'a.y.w': '$a.y'}}, {'$addFields': {'a.w.q': 1}}]),
    ('eb8f57c', [{'$facet': {'x': [{'$addFields': {'a.y.w': 9, 'n': '$a'}}, {'$set': {'n.x': 7}}],
                             'y': [{'$match': {}}]}}]),
    # 36bb490 / 5c2730e: includeArrayIndex on kept documents, dotted index names
    ('36bb490', [{'$unwind': {'path': '$arr', 'preserveNullAndEmptyArrays': True,
                              'includeArrayIndex': 'ix'}}]),
    ('5c2730e', [{'$unwind': {'path': '$arr', 'preserveNullAndEmptyArrays': True,
                              'includeArrayIndex': 'a.y.ix'}}]),
    ('5c2730e', [{'$facet': {'x': [{'$unwind': {'path': '$arr', 'preserveNullAndEmptyArrays': True,
                                                'includeArrayIndex': 'm.ix'}}],
                             'y': [{'$unwind': {'path': '$arr', 'includeArrayIndex': 'a.ix'}}]}}]),
    # 0383ef2: every output document of $unwind holds its own copy of the element
    ('0383ef2', [{'$unwind': {'path': '$arr', 'includeArrayIndex': 'arr.ix'}}]),
    ('0383ef2', [{'$facet': {'x': [{'$unwind': {'path': '$arr', 'includeArrayIndex': 'arr.p.ix',
                                                'preserveNullAndEmptyArrays': True}}],
                             'y': [{'$unwind': '$arr'}, {'$addFields': {'arr.w': 1}}]}}]),
    # 0532f7e: … and its own copy of a value that is no array
    ('0532f7e', [{'$unwind': {'path': '$a', 'includeArrayIndex': 'a.ix'}}]),
    ('0532f7e', [{'$facet': {'x': [{'$unwind': {'path': '$a', 'includeArrayIndex': 'a.y.ix',
                                                'preserveNullAndEmptyArrays': True}}],
                             'y': [{'$unwind': '$a'}, {'$addFields': {'a.w': 1}}]}}]),
    # fce7e55: an array in expression position evaluates its items (sub-documents of the input
    # document become items of the new list; a missing value gives null)
    ('fce7e55', [{'$addFields': {'l': ['$a', '$a.y', '$nope', {'u': '$a'}, ['$k']]}},
                 {'$addFields': {'l.w': 1}}, {'$unwind': {'path': '$l', 'includeArrayIndex': 'ix'}}]),
    ('fce7e55', [{'$project': {'l': ['$a', {'$literal': {'q': 1}}]}},
                 {'$facet': {'x': [{'$unwind': '$l'}, {'$addFields': {'l.z': 2}}], 'y': []}}]),
    # d1da933: the stages work on a rebuilt pipeline — nothing they do reaches the caller's object
    ('d1da933', [{'$replaceRoot': {'newRoot': {'$literal': {'q': {'r': 1}}}}},
                 {'$addFields': {'q.z': 1}}, {'$out': 'c'}]),
    ('d1da933', [{'$sample': {'size': 2}}, {'$addFields': {'n': [{'$literal': [1]}, 2]}}]),
    # 391498a: a double that holds a whole number is an integer for $limit / $skip
    ('391498a', [{'$skip': 1.0}, {'$limit': 2.0}]),
    ('391498a', [{'$limit': 1.5}]),
    # 1451329: a dotted name through an array sets the field in every item (own copy of the value
    # each), nested arrays gone through, items that are no documents become documents
    ('1451329', [{'$addFields': {'arr.w': '$a', 'arr.p.q': 1}}, {'$addFields': {'arr.w.x': 5}}]),
    ('1451329', [{'$addFields': {'l': [['$a', 1], '$a', 3]}}, {'$set': {'l.w': '$a.y', 'l.z.t': '$k'}}]),
    ('1451329', [{'$facet': {'x': [{'$addFields': {'arr.w': '$$ROOT'}}, {'$unwind': '$arr'},
                                   {'$addFields': {'arr.w.k': 9}}],
                             'y': [{'$set': {'arr.n': {'$literal': {'q': 1}}}}]}}]),
    # e05c961: the input is one copy per stored document, $lookup rebuilds what it fetches
    ('e05c961', [{'$lookup': {'from': 'b', 'localField': 'k', 'foreignField': 'k', 'as': 'j'}},
                 {'$addFields': {'j.w': '$a'}}, {'$out': 'c'}]),
    # 482a7bb: $count over no documents
    ('482a7bb', [{'$match': {'k': 7}}, {'$count': 'n'}]),
    # 2432305: stage documents with no / several operators
    ('2432305', [{'$match': {}}, {}]),
    ('2432305', [{'$addFields': {'a.w': 1}, '$limit': 1}]),
    # 2ed0182: $limit / $skip arguments
    ('2ed0182', [{'$limit': 0}]),
    ('2ed0182', [{'$skip': -1}]),
    ('2ed0182', [{'$facet': {'x': [{'$limit': 1}], 'y': [{'$skip': 1}, {'$limit': 2}]}}]),
]


def dec(s):
    return wire.dec(s, L.ZO)


def is_err(s):
    return s.startswith('!')


def deterministic(prefix):
    ops = L.ops_of(prefix)
    return '$sample' not in ops and '$out' not in ops


def multiset(docs):
    return collections.Counter(json.dumps(wire.pretty(d), sort_keys=True, default=repr)
                               for d in docs)


def queries(case):
    """the script of a case: list of (tag, query)"""
    st, p = case['state'], case['pipeline']
    qs = [('main', ('run', 2, st, 'a', p))]
    nf = 0
    nin = 0
    for i, stage in enumerate(p):
        op = L.first_op(stage)
        if not deterministic(p[:i]):
            break
        if len(stage) == 1 and op not in NOT_INPUT_JUDGED and nin < 2:
            nin += 1
            qs.append(('stagein:%d' % i, ('stagein', st, 'a', p[:i], [stage])))
        if op == '$facet' and nf < 2:
            nf += 1
            qs.append(('facet_in:%d' % i, ('run', 1, st, 'a', p[:i])))
            qs.append(('facet_out:%d' % i, ('run', 1, st, 'a', p[:i + 1])))
            for title, sub in stage['$facet'].items():
                qs.append(('branch:%d:%s' % (i, title), ('proc', st, 'a', p[:i], sub)))
        if op == '$sample':
            qs.append(('sample_in:%d' % i, ('run', 1, st, 'a', p[:i])))
            qs.append(('sample_out:%d' % i, ('run', 1, st, 'a', p[:i + 1])))
    if L.out_target(p) is not None and deterministic(p[:-1]):
        qs.append(('out_prefix', ('run', 1, st, 'a', p[:-1])))
    if case.get('tz'):
        qs.append(('tz', ('tz', st, 'a', p)))
    return qs


def branch_queries(case, answers):
    return []


def py_answer(q):
    if q[0] == 'run':
        return L.py_run(*q[1:])
    if q[0] == 'stagein':
        return L.py_stagein(*q[1:]), None
    if q[0] == 'tz':
        return L.py_tz_run(*q[1:]), None
    return L.py_proc(*q[1:]), None


def line_of(q):
    if q[0] == 'run':
        return L.run_line(*q[1:])
    if q[0] == 'stagein':
        return L.stagein_line(*q[1:])
    return L.proc_line(*q[1:])


class Judge(object):
    def __init__(self, ctx):
        self.ctx = ctx
        self.known = {e['id'] for e in common.load_known('C16') if e.get('status') == 'known'}
        self.checks = collections.Counter()
        self.findings = collections.Counter()

    def finding(self, case, cls, detail):
        self.findings[cls] += 1
        if cls in self.known:
            self.ctx.known_seen[cls] = self.ctx.known_seen.get(cls, 0) + 1
            return
        self.bad(case, 'repaired defect is back / class not listed as known: %s' % cls, detail)

    def bad(self, case, kind, detail, rank_extra=0):
        r = render(case)
        # most convincing first = the smallest failing input (not the shortest description of
        # what went wrong with it); for one input, in the order of the clauses of the property
        rank = rank_extra + len(json.dumps(r, default=repr))
        r.update(kind=kind, detail=detail)
        self.ctx.violation(r, rank=rank)

    # -- the property, stated on one side's answers ------------------------------------
    def judge(self, case, ans, extra):
        """ans: tag -> answer; extra: python-only observations of the main query (None for the
        model).  Reports through self.finding / self.bad.  Returns the list of verdict strings
        (used to compare the model's verdicts with python's)."""
        p = case['pipeline']
        ops = L.ops_of(p)
        main = ans['main']
        target = L.out_target(p)
        verdicts = []
        r1, r2 = main['res']
        # O1 read-only
        if extra is not None:
            self.checks['readonly'] += 1
            for c in L.COLLS:
                if c != target and not extra['store_same'][c]:
                    self.bad(case, 'aggregation changed collection %r' % c, main['store'])
            if target is None and not extra['names_same']:
                self.bad(case, 'aggregation changed the collection names', None)
            if not extra['raw_eq_find']:
                self.bad(case, 'find() and the raw store disagree after the aggregation', None)
            if not extra['scribble_safe']:
                self.bad(case, 'editing the returned documents changed the store', None)
        # O2 pipeline argument
        self.checks['pipeline_arg'] += 1
        cls1 = L.classify_pipe_diff(p, dec(main['pipes'][0]))
        cls2 = L.classify_pipe_diff(p, dec(main['pipes'][1]))
        for c in sorted(cls1 | cls2, key=str):
            if c is None:
                self.bad(case, 'the caller\'s pipeline object was modified',
                         {'changed_at': [list(x) for x in L.diff_paths(p, dec(main['pipes'][0])) +
                                         L.diff_paths(p, dec(main['pipes'][1]))][:6],
                          'pipeline_after_run_1': wire.pretty(dec(main['pipes'][0])),
                          'pipeline_after_run_2': wire.pretty(dec(main['pipes'][1]))})
            else:
                self.finding(case, c, 'pipeline modified: ' + main['pipes'][0])
            verdicts.append('pipe:' + str(c))
        if extra is not None and not (cls1 | cls2) and not extra['pipe_ids_same']:
            self.bad(case, 'parts of the pipeline object were replaced by other objects', None)
        # O3 repeatable
        reads = L.reads_of(p, 'a')
        if target is None or target not in reads:
            self.checks['repeatable'] += 1
            if '$sample' in ops:
                if r1 != r2 and not (is_err(r1) and is_err(r2)):
                    if 'sample-pops-size' in cls1 | cls2 and is_err(r2) and not is_err(r1):
                        self.finding(case, 'sample-pops-size', 'second run: ' + r2)
                        verdicts.append('rerun:sample-pops-size')
                    elif not (cls1 | cls2):
                        # two different draws with the pipeline object unchanged: which
                        # documents are drawn also decides whether a later stage raises
                        # (sizes / sub-multiset are judged below, O6)
                        pass
                    else:
                        self.bad(case, 'second run differs from the first', [r1, r2])
            elif r1 != r2:
                if 'literal-written' in cls1 | cls2:
                    self.finding(case, 'literal-written', 'second run differs: ' + r2)
                    verdicts.append('rerun:literal-written')
                else:
                    self.bad(case, 'second run differs from the first', [r1, r2])
        # O4 facet isolation
        for tag in ans:
            if not tag.startswith('facet_out:'):
                continue
            i = int(tag.split(':')[1])
            fo = ans[tag]['res'][0]
            branches = p[i]['$facet']
            alone = {t: ans.get('branch:%d:%s' % (i, t)) for t in branches}
            if any(a is None for a in alone.values()):
                continue
            self.checks['facet'] += 1
            anyrand = any('$sample' in L.ops_of(sub) for sub in branches.values())
            for t, sub in branches.items():
                a = alone[t]['res'][0]
                rand = '$sample' in L.ops_of(sub)
                if is_err(fo):
                    if anyrand or t != list(branches)[0]:
                        continue
                    differs = not any(x['res'][0] == fo for x in alone.values())
                elif is_err(a):
                    if rand:
                        continue
                    differs = True
                else:
                    got = dec(fo)[0].get(t)
                    if rand:
                        differs = (list(sub[-1]) == ['$sample'] and len(got) != len(dec(a)))
                    else:
                        differs = got != dec(a)
                if differs:
                    sib = None
                    for t2, sub2 in branches.items():
                        if t2 != t or is_err(fo):
                            sib = sib or L.has_nested_write(sub2)
                    if sib:
                        self.finding(case, sib, 'branch %r inside $facet: %s ; alone: %s'
                                     % (t, fo, a))
                        verdicts.append('facet:%d:%s' % (i, t))
                    else:
                        self.bad(case, 'a $facet branch differs from the same sub-pipeline run '
                                 'alone on the stage\'s input, and no sibling edits documents',
                                 {'branch': t, 'in_facet': fo, 'alone': a})
        # O5 $out
        if target is not None and 'out_prefix' in ans and not is_err(r1):
            self.checks['out'] += 1
            pre = ans['out_prefix']['res'][0]
            store_t = dec(main['store'][L.COLLS.index(target)])
            if is_err(pre):
                self.bad(case, '$out succeeded although its input pipeline raises', pre)
            else:
                want = dec(pre)
                for d in want:
                    if isinstance(d, dict) and '_id' not in d:
                        d['_id'] = ('O', 0)
                if dec(r1) != want and 'literal-written' not in cls1:
                    self.bad(case, '$out does not pass its input through',
                             {'returned': r1, 'prefix_output': pre})
                # (run twice: the target holds the second run's output)
                if target not in reads and not is_err(r2) and store_t != dec(r2):
                    self.bad(case, '$out: the target collection differs from the output',
                             {'target': main['store'][L.COLLS.index(target)], 'returned': r2})
        # O7 the documents a stage is handed are left alone
        for tag in ans:
            if not tag.startswith('stagein:'):
                continue
            a = ans[tag]
            if 'input' not in a:
                continue
            i = int(tag.split(':')[1])
            if L.index_through_unwound(p[i]):
                # judged like every other stage since $unwind gives every output document its
                # own copy of the element / of the value that is no array
                self.checks['input_unchanged_index_through_unwound_field'] += 1
            self.checks['input_unchanged'] += 1
            if a['input'] != a['input_before'] or not a.get('input_ids_same', True):
                self.bad(case, 'stage %d (%s) changed the documents it was handed'
                         % (i, L.first_op(p[i])),
                         {'input_before': a['input_before'], 'input_after': a['input'],
                          'stage_output': a['res'][0]})
                verdicts.append('input:%d' % i)
        # O8 tz_aware: the results are a rebuild
        if 'tz' in ans:
            t = ans['tz']
            self.checks['tz_aware'] += 1
            if not t['separate']:
                self.bad(case, 'tz_aware: the returned documents share a dict or list with each '
                         'other or with the caller\'s pipeline', t['res'])
            if not t['pipe_same']:
                self.bad(case, 'tz_aware: the caller\'s pipeline object was modified', None)
            if deterministic(p) and L.out_target(p) is None and t['res'] != r1:
                self.bad(case, 'tz_aware: the answer differs from the plain collection\'s '
                         '(no datetime anywhere)', {'tz_aware': t['res'], 'plain': r1})
        # O6 $sample
        for tag in ans:
            if not tag.startswith('sample_out:'):
                continue
            i = int(tag.split(':')[1])
            si, so = ans['sample_in:%d' % i]['res'][0], ans[tag]['res'][0]
            if is_err(si) or is_err(so):
                continue
            self.checks['sample'] += 1
            inp, out = dec(si), dec(so)
            size = p[i]['$sample'].get('size')
            if multiset(out) - multiset(inp) or len(out) != min(size, len(inp)):
                self.bad(case, '$sample: not a sub-multiset of the input of the requested size',
                         {'input': si, 'output': so})
        return verdicts


def render(case):
    return {'state': wire.pretty(case['state']), 'pipeline': wire.pretty(case['pipeline']),
            'wire_state': L.encs(case['state']), 'wire_pipeline': L.encs(case['pipeline']),
            'stream': case.get('stream')}


def gen_case(rng, k):
    model = (k % 2 == 0)
    return {'state': gen_c16.gen_state(rng), 'pipeline': gen_c16.gen_pipeline(rng, model),
            'stream': 'model' if model else 'rich', 'tz': k % 3 == 0}


def run_cases(ctx, cases, judge, use_model, stats):
    """python answers + oracles; model answers + comparison"""
    lines, where = [], []
    kept = []
    for c in cases:
        try:
            ans, extra = {}, None
            qs = queries(c)
            for tag, q in qs:
                a, e = py_answer(q)
                ans[tag] = a
                if tag == 'main':
                    extra = e
            qs2 = branch_queries(c, ans)
            for tag, q in qs2:
                ans[tag], _ = py_answer(q)
            c['qs'] = qs + qs2
            c['py'] = ans
            c['extra'] = extra
            c['verdicts'] = judge.judge(c, ans, extra)
        except wire.Unencodable:
            stats['unencodable'] += 1
            continue
        kept.append(c)
        if use_model and c.get('stream') == 'model':
            for tag, q in c['qs']:
                if q[0] == 'tz':
                    continue
                where.append((c, tag))
                lines.append(line_of(q))
    if use_model and lines:
        out = wire.run_driver(lines)
        for (c, tag), o in zip(where, out):
            m = L.parse_stagein(o) if tag.startswith('stagein:') else L.parse_model(o)
            py = c['py'][tag]
            if L.unmodelled(m):
                stats['model_unmodelled'] += 1
                c['unmodelled'] = True
                continue
            stats['model_compared'] += 1
            q = dict(c['qs'])[tag]
            if '$sample' in L.ops_of(q[-1]) + (L.ops_of(q[-2]) if q[0] == 'proc' else []):
                # random choice: only raised / did not raise and the pipeline object are compared
                # (which documents are drawn decides whether a later stage raises; a run that
                # raises is not compared: the model does not keep the state of a failed call)
                if is_err(py['res'][0]) or is_err(m['res'][0]):
                    diff = []
                else:
                    # (drawn documents written into a $literal make the pipeline random too)
                    diff = [f for f in ('pipes',) if f in py and '$literal' not in L.ops_of_expr(q[-1])
                            and py[f][:1] != m.get(f)[:1]]
            elif any(is_err(x) for x in py['res']) and py['res'] == m.get('res'):
                # both raise the same error: the model does not keep the writes a failed call had
                # already made (a $facet branch that wrote before a sibling raised)
                stats['model_failed_run_state_not_compared'] += 1
                diff = []
            else:
                diff = [f for f in ('res', 'pipes', 'store', 'input') if f in py and py[f] != m.get(f)]
            if diff:
                stats['model_mismatch'] += 1
                if len(stats['mismatch_samples']) < 5:
                    stats['mismatch_samples'].append(dict(
                        render(c), query=tag, fields=diff,
                        python={f: py[f] for f in diff}, model={f: m.get(f) for f in diff}))
    return kept


def table_check(ctx):
    """the edit discipline extracted from the source now vs the reference the theorems use"""
    import extract_agg_discipline as X
    cur = X.extract()
    ref = X.REFERENCE
    return [(k, ref.get(k), cur.get(k)) for k in sorted(set(ref) | set(cur))
            if ref.get(k) != cur.get(k)]


def regenerate(ctx):
    import extract_agg_discipline as X
    X.write_lean(os.path.join(common.LEAN, 'Generated', 'AggDiscipline.lean'))


def run(ctx, proof, driver_ok):
    n = ctx.n(1600, 24000)
    rng = random.Random(ctx.seed * 1000003 + 1616)
    judge = Judge(ctx)
    stats = collections.Counter()
    stats['mismatch_samples'] = []
    ops = collections.Counter()
    nontrivial = set()
    samples = []
    evaluations = 0
    errors = collections.Counter()
    done = 0
    total = 0
    # known witnesses first (corpus)
    corpus = [{'state': e['witness']['state'], 'pipeline': e['witness']['pipeline'],
               'stream': 'model'} for e in common.load_known('C16') if 'witness' in e]
    corpus += [{'state': copy.deepcopy(_S), 'pipeline': copy.deepcopy(p), 'stream': 'model',
                'tz': True} for _, p in FOLLOWED]
    for c in run_cases(ctx, corpus, judge, driver_ok, stats):
        if c.get('unmodelled'):
            stats['corpus_unmodelled'] += 1
    while done < n and not ctx.too_many():
        cases = [gen_case(rng, done + k) for k in range(min(400, n - done))]
        done += len(cases)
        for c in run_cases(ctx, cases, judge, driver_ok, stats):
            total += 1
            evaluations += len(c['qs'])
            cops = L.ops_of(c['pipeline'])
            for o in cops:
                ops[o] += 1
            r1 = c['py']['main']['res'][0]
            if is_err(r1):
                errors[r1[1:]] += 1
                continue
            editing = any(o in EDITING for o in cops) and (
                any(o not in ('$addFields', '$set') for o in cops if o in EDITING) or
                any('.' in k for st in _all_stages(c['pipeline']) for op, opts in st.items()
                    if op in ('$addFields', '$set') for k in opts))
            if editing:
                h = common.case_hash(render(c))
                if h not in nontrivial:
                    nontrivial.add(h)
                    if len(samples) < 4 and len(c['pipeline']) >= 2 and c['verdicts']:
                        samples.append(dict(render(c), first_run=r1, verdicts=c['verdicts']))
    mism = table_check(ctx)
    if mism:
        stats['discipline_table_mismatch'] = len(mism)
    broken = []
    if mism:
        broken.append('edit discipline of mongomock/aggregate.py differs from the reference table '
                      '(Generated.AggDiscipline.discipline_is_reference): %r' % (mism,))
    if stats['model_mismatch']:
        broken.append('correspondence mongomock.aggregate ~ MongoModel.AggHeap: %d answers differ'
                      % stats['model_mismatch'])
    if broken and not ctx.violations:
        ctx.violation({'kind': 'model of the code no longer matches the code; the direct oracles '
                       'found no failing pipeline', 'what_no_longer_checks': broken,
                       'samples': stats['mismatch_samples']}, no_input=True)
    elif broken:
        ctx.notes.append('; '.join(broken)[:1000])
    ms = stats.pop('mismatch_samples')
    return {
        'evaluations': evaluations,
        'distinct_nontrivial': len(nontrivial),
        'rule': RULE,
        'samples': samples,
        'cases': total,
        'corpus_cases': len(corpus),
        'oracle_checks': dict(judge.checks),
        'known_finding_hits': dict(judge.findings),
        'first_run_error_kinds': dict(errors),
        'stage_histogram': dict(ops.most_common()),
        'model': {k: v for k, v in stats.items()},
        'model_mismatch_samples': ms,
        'discipline_table_mismatch': mism,
    }


def _all_stages(p):
    for st in p:
        yield st
        for op, opts in st.items():
            if op == '$facet' and isinstance(opts, dict):
                for sub in opts.values():
                    for s in _all_stages(sub):
                        yield s


def replay(ctx, path):
    e = json.load(open(path))
    if 'wire_state' not in e:
        print(json.dumps(e, default=repr)[:2000])
        return 1
    case = {'state': dec(e['wire_state']), 'pipeline': dec(e['wire_pipeline']),
            'stream': e.get('stream')}
    judge = Judge(ctx)
    judge.known = set()          # a replay shows the failure even when its class is listed
    stats = collections.Counter()
    stats['mismatch_samples'] = []
    run_cases(ctx, [case], judge, os.path.exists(wire.DRIVER), stats)
    print(json.dumps({'python': case.get('py'), 'verdicts': case.get('verdicts'),
                      'violations': len(ctx.violations)}, default=repr)[:3000])
    return common.finish(ctx)


def replay_finding(ctx, e):
    """does the listed witness still fail on the real code?"""
    case = {'state': e['witness']['state'], 'pipeline': e['witness']['pipeline']}
    sub = common.Ctx('C16', ctx.tier, ctx.seed)
    judge = Judge(sub)
    judge.known = set(KNOWN_IDS)
    stats = collections.Counter()
    stats['mismatch_samples'] = []
    run_cases(sub, [case], judge, False, stats)
    return judge.findings.get(e['id'], 0) > 0
