"""C08 — a failed write leaves no trace; batches stop or continue exactly as documented.

Histories rich in failing writes (a failing element injected at every position of multi-operator
updates, replacements with a changed _id, duplicate keys under unique indexes, malformed
documents, failing batch elements) run on the real code and on the Lean model.  Directly on
python: after a single-document write that raised, documents and indexes are exactly as before;
an insert_many is compared with issuing its inserts one at a time on a twin collection; a failed
update_many neither adds nor removes a document.

"update_many keeps the documents it had already updated" - at whatever point it fails.  It can
fail while APPLYING the update to a document, and it can fail while LOOKING FOR the next one: the
filter is evaluated lazily, document by document, as the walk proceeds, and a filter can raise on
the data of one document and not of another (`$expr` around an operator that accepts some kinds
of value only, a disjunction whose malformed part only some documents reach, a condition that
raises on arrays only).  Four in ten of the multi-document updates (update_many, UpdateMany
requests of a bulk) carry such a filter (hist.HistGen.lazy_filter), aimed at fields the
documents hold with values of several kinds.  On python every update_many - failed or not - is
compared with its walk spelled out on a twin collection (one_document_at_a_time): the filter put
to each document alone, update_one through the _id of each match, stop at the first raise; so
every document in front of the failing one holds its update, the failing one and the rest are
untouched.  The multi updates of a bulk_write go through the same comparison when the batch is
issued one request at a time.  The Lean model walks the same way (Store.updateLoop), so these
histories stay in the correspondence.

"Arbitrary prior collection states" includes documents whose stored `_id` is not the value the
caller gave: datetimes are normalised on the way in (naive UTC, whole milliseconds), bare or
inside an embedded-document `_id`.  The histories draw such ids (every spelling of two stored
instants, hist.DATE_IDS_WIDE) next to the ids that are stored as given, so every failing write
also meets documents filed under a normalised key.

"Every kind of failure" of find_one_and_update / find_one_and_replace includes the projection:
a projection can be refused on the DATA of the document it meets (a `$slice` of a field that
holds no array, a `[skip, limit]` whose limit is not positive, a `$slice` argument that is no
count and no pair), in either return mode.  The histories aim such projections (every form of
the argument, hist.HistGen.slice_projection) at fields the documents hold; on python the
collection measures, before the call, whether the projection is refused on the document the
call is about to match and, after it, on which documents it is refused now (pre_probe / probe).
A call that raised and left a trace is the known class `fam-after-projection-on-result` only
when it asked for the document AFTER the write, its projection is acceptable in itself, was NOT
refused on the matched document as it stood and IS refused on what the write left; anything
else - a projection the matched document already refuses, whatever the return mode - is the
property failing.
"""
import copy
import sys

import mongomock

import common
import hist
import histcheck
import wire
from histcheck import state_of

ID = 'C08'
SALT = 808
RULE = ('history = 2-25 generated operations, about 40% of the writes failing (malformed / '
        'type-incompatible operator at a random position of a 1-3 operator update, _id change, '
        'duplicate key, failing batch element, unknown operator); _ids from a small pool of '
        'scalars, embedded documents and datetimes that insertion normalises (sub-millisecond, '
        'tz-aware; bare or inside an embedded _id); a quarter of the find_one_and_* projections '
        'hold $slice fields (counts, [skip, limit] pairs with a limit on either side of zero, '
        'unsupported arguments) aimed at fields of the documents, so that they are refused or not '
        'depending on the matched document, before or after the write, in both return modes; '
        'every step is compared with the '
        'Lean model on outcome and full state; on python a failed single-document write must '
        'leave documents and indexes unchanged (for find_one_and_update / _replace the only '
        'exception is the known class: return_document=AFTER with a projection measured as '
        'accepted on the matched document before the call and refused on what the write left), '
        'a failed update_many must leave the _id sequence '
        'and the indexes unchanged; 40% of the multi-document updates (update_many, UpdateMany '
        'of a bulk) carry a filter that raises on the data of some documents only ($expr around '
        'an operator partial in the kind of value, guard-or-malformed disjunctions, conditions '
        'that raise on arrays / on candidates only), and every update_many - also each multi '
        'update of a bulk_write issued alone - must equal its walk one document at a time on a '
        'twin collection (filter put to each document alone, update_one by _id, stop at the '
        'first raise: documents in front of the failing one updated, the rest untouched); '
        'insert_many must equal one-at-a-time inserts '
        '(twin collection); non-trivial = some single-document write fails in an operator that is '
        'not the first of its update, or a batch fails in an element that is not the first, or '
        'an update_many fails behind a document it had updated; '
        'distinct = by hash of the history')
ASSUMPTIONS = [
    'TTL-free histories (expiry is C09)',
    'these histories draw no positional $ paths (the positional operator is modelled '
    'and judged under C02); a step the model '
    'answers unmodelled for cuts the history there',
    'error classes compared: DuplicateKeyError, WriteError, BulkWriteError(details), '
    'NotImplementedError; every other exception only as "raised"',
]

known_labels = {e['id'] for e in common.load_known(ID) if e.get('status') == 'known'}
SINGLE = ('insert_one', 'update_one', 'replace_one', 'delete_one')
FAM = ('find_one_and_update', 'find_one_and_replace', 'find_one_and_delete')


def histgen(rng, oids):
    hg = hist.HistGen(rng, oids, weights=dict(
        insert_one=16, insert_many=12, update_one=24, update_many=11, replace_one=12,
        delete_one=4, delete_many=1, find=0, count=0, distinct=0, create_index=5,
        drop_index=0, drop_indexes=1, drop=1, bulk_write=9, find_one_and_update=5,
        find_one_and_replace=2, find_one_and_delete=2), ttl=False, date_ids='wide')
    hg.ug.malformed = 0.22
    hg.dollar_values = 0.04
    hg.slice_proj = 0.25
    hg.lazy_filters = 0.4
    return hg


def length(rng):
    return rng.choice([2, 4, 8, 12, 18, 25])


view = histcheck.full_view


def twin_history(history, upto):
    """history[:upto] followed by the batch at `upto` (insert_many / bulk_write) issued one
    operation at a time"""
    op = history[upto]
    if op[0] == 'bulk_write':
        from props.c15 import as_single
        return history[:upto] + [as_single(r) for r in op[1]]
    return history[:upto] + [['insert_one', d] for d in op[1]]


def oracle(history, steps):
    fails = []
    prev = state_of({'docs': [], 'indexes': []})
    for i, st in enumerate(steps):
        cur = state_of(st.obs)
        k = st.op[0]
        if st.out[0] == 'err' and k in SINGLE and cur != prev:
            fails.append((i, 'trace', 'failed %s (%s) changed the collection: %r -> %r'
                          % (k, st.out[1], prev, cur)))
        if st.out[0] == 'err' and k in FAM and cur != prev:
            # known: with return_document=AFTER the read-back (and its projection) runs after
            # the write, so a projection whose refusal DEPENDS ON THE DOCUMENT (a $slice of what
            # the update has turned into a non-array) leaves the write behind.  The class is
            # exactly that: the projection is acceptable in itself (a projection refused whatever
            # the document is refused before the write since library commit 7781c66, the repaired
            # finding `fam-after-projection-error`), the matched document as it stood did NOT
            # make it fail (measured on the real code before the call; no document matched on
            # the upsert path), and a document the call changed or created DOES (measured after
            # it).  A projection that the matched document already refuses must stop the call
            # before the write, in either return mode: that is the property, not the known class.
            after = k != 'find_one_and_delete' and bool(st.op[6])
            proj = st.op[3] if k != 'find_one_and_delete' else st.op[2]
            pre = (st.extra or {}).get('pre') or {}
            post = (st.extra or {}).get('probe') or {}
            on_result = refused_on_result(prev, cur, post.get('refused_now'))
            lab = 'fam-after-projection-on-result' if (
                after and proj is not None and acceptable_in_itself(proj) and
                pre.get('refused_before') is False and on_result) else 'trace'
            why = ''
            if proj is not None:
                why = ' [projection %r: refused on the matched document before the call: %r; ' \
                      'refused on a document the call left changed: %r; return_document=%s]' % (
                          proj, pre.get('refused_before'), on_result,
                          'AFTER' if after else 'BEFORE')
            fails.append((i, lab, 'failed %s (%s) changed the collection: %r -> %r%s'
                          % (k, st.out[1], prev, cur, why)))
        if st.out[0] == 'err' and k in ('find', 'count', 'distinct', 'delete_many') and cur != prev:
            fails.append((i, 'trace', 'failed %s changed the collection' % k))
        if st.out[0] == 'err' and k == 'update_many' and ids_state(cur) != ids_state(prev):
            # document granularity: the documents already updated stay updated, the failing one
            # is restored in place - so no document appears, disappears or moves
            fails.append((i, 'trace', 'failed update_many (%s) added / removed / moved documents '
                          'or changed the indexes: %r -> %r' % (st.out[1], prev, cur)))
        if k == 'update_many':
            fails.extend(check_update_many(history, steps, i))
        if k == 'insert_many' and isinstance(st.op[1], list) and st.op[1] and \
                all(isinstance(d, dict) for d in st.op[1]):
            fails.extend(check_batch(history, steps, i))
        if k == 'bulk_write' and isinstance(st.op[1], list) and st.op[1]:
            fails.extend(check_batch(history, steps, i, bulk=True))
        prev = cur
        if any(l not in known_labels for (_, l, _) in fails) or len(fails) > 50:
            break
    return fails


def acceptable_in_itself(proj):
    """the projection is not refused whatever the document: applied to an empty document (through
    find_one on a scratch collection) it does not raise"""
    return refused_on({}, proj) is False


def refused_on(doc, proj):
    """the real code refuses the projection on this document's data: find_one through it on a
    scratch collection that holds (a copy of) the document alone raises.  None: the scratch
    collection would not take the document (nothing measured)"""
    c = mongomock.MongoClient().db.scratch
    try:
        c.insert_one(copy.deepcopy(doc))
    except Exception:  # pylint: disable=broad-except
        return None
    try:
        c.find_one({}, copy.deepcopy(proj))
        return False
    except Exception:  # pylint: disable=broad-except
        return True


def fam_projection(op):
    if op[0] in ('find_one_and_update', 'find_one_and_replace'):
        return op[3]
    return None


def pre_probe(runner, op):
    """before a find_one_and_update / _replace with a projection: is that projection refused on
    the document the call is about to match (the first match of the filter under the sort, on
    the full documents)?  False when nothing matches (the upsert path)"""
    proj = fam_projection(op)
    if proj is None:
        return None
    kw = {}
    if op[4] is not None:
        kw['sort'] = [tuple(x) for x in op[4]]
    try:
        target = runner.coll.find_one(copy.deepcopy(op[1]), **kw)
    except Exception as e:  # pylint: disable=broad-except
        return {'error': type(e).__name__}
    return {'matched': target is not None,
            'refused_before': refused_on(target, proj) if target is not None else False}


def probe(runner, op):
    """after such a call: on which documents of the collection (in the order of the observation)
    the projection is refused now"""
    proj = fam_projection(op)
    if proj is None:
        return None
    try:
        docs = list(runner.coll.find({}))
    except Exception as e:  # pylint: disable=broad-except
        return {'error': type(e).__name__}
    return {'refused_now': [refused_on(d, proj) for d in docs]}


def refused_on_result(prev, cur, refused_now):
    """some document that the call changed or created (present now, not before) makes the
    projection fail now"""
    if not refused_now or not isinstance(cur, tuple) or not isinstance(cur[0], tuple) or \
            len(refused_now) != len(cur[0]):
        return False
    before = prev[0] if isinstance(prev, tuple) and isinstance(prev[0], tuple) else ()
    return any(r is True for d, r in zip(cur[0], refused_now) if d not in before)


def ids_state(state):
    """(_id sequence, index names) of a frozen state"""
    if not isinstance(state, tuple) or not isinstance(state[0], tuple):
        return state
    return (tuple(dict(d[1:]).get('_id', '<missing>') if isinstance(d, tuple) else d
                  for d in state[0]), state[1])


def matches_alone(doc, flt):
    """what the filter makes of this document, on the real code: a scratch collection that holds
    (a copy of) the document alone is searched through it.  True / False, 'raises' when the
    search raises, None when the scratch collection would not take the document.  With `doc`
    None the scratch collection stays empty: what the filter makes of no document at all (it is
    validated all the same)"""
    c = mongomock.MongoClient().db.scratch
    try:
        if doc is not None:
            c.insert_one(copy.deepcopy(doc))
    except Exception:  # pylint: disable=broad-except
        return None
    try:
        return c.find_one(copy.deepcopy(flt)) is not None
    except Exception:  # pylint: disable=broad-except
        return 'raises'


def one_document_at_a_time(history, i, oids):
    """history[:i] on a twin collection, then the update_many at `i` spelled out on the real code:
    the documents are visited in the order the collection shows them; the filter is put to each
    one ALONE (matches_alone); a document it matches is updated by update_one through its own
    _id; the first document on which the filter or the update raises ends the walk (update_one is
    atomic - the clause on single-document writes - so that document is as it was).  An update
    that matched nothing and did not fail is re-issued as update_one with the caller's filter
    when it upserts.
    → (whether the walk ended in a failure, the frozen state it leaves, the number of documents
    updated before the end, position of the document that ended it) or None (nothing measured)"""
    op = history[i]
    flt, upd, upsert = op[1], op[2], op[3]
    pr = hist.PyRunner()
    try:
        for o in history[:i]:
            pr.apply(o[1] if o[0] == 'noobs' else o)
        try:
            docs = list(pr.coll.find({}))
        except Exception:  # pylint: disable=broad-except
            return None
        failed, done, at = False, 0, None
        try:
            # an update specification that is refused in itself (unknown operator …) is refused
            # before any document is looked for: the same update aimed at no document
            pr.coll.update_one({'_id': 'no-such-document'}, copy.deepcopy(upd))
        except Exception:  # pylint: disable=broad-except
            failed = True
        if not docs and not failed:
            # the filter is validated even when there is nothing to look at
            failed = matches_alone(None, flt) == 'raises'
        for j, d in enumerate([] if failed else docs):
            m = matches_alone(d, flt)
            if m is None:
                return None
            if m == 'raises':
                failed, at = True, j
                break
            if not m:
                continue
            try:
                pr.coll.update_one({'_id': copy.deepcopy(d['_id'])}, copy.deepcopy(upd))
                done += 1
            except Exception:  # pylint: disable=broad-except
                failed, at = True, j
                break
        if not failed and not done and upsert:
            try:
                pr.coll.update_one(copy.deepcopy(flt), copy.deepcopy(upd), upsert=True)
            except Exception:  # pylint: disable=broad-except
                failed = True
        obs = pr.observe()
    finally:
        pr.close()
    try:
        tokens = hist.renumber_fresh(wire.encs(obs, oids).split())
    except wire.Unencodable:
        return None
    return failed, state_of(histcheck.decode_tokens(tokens, 0)[0]), done, at


def check_update_many(history, steps, i):
    """update_many works at document granularity: it equals its walk spelled out one document at
    a time (one_document_at_a_time).  When it raises part-way - in the FILTER, evaluated document
    by document as the walk proceeds, or in the update - every document in front of the failing
    one holds its update, the failing one and everything behind it are as they were"""
    st = steps[i]
    op = st.op
    if not (isinstance(op[1], dict) and isinstance(op[2], dict)):
        return []
    exp = one_document_at_a_time(history, i, st.oids)
    if exp is None:
        return []
    failed, state, done, at = exp
    if isinstance(st.extra, dict):
        st.extra['walk'] = {'failed': failed, 'updated_before': done, 'ended_by_document': at}
    got = histcheck.renumber_state(state_of(st.obs))
    want = histcheck.renumber_state(state)
    if (st.out[0] == 'err') != failed:
        return [(i, 'update-many-outcome', 'update_many %s, its walk one document at a time %s '
                 '(document #%r of the collection ends it, %d updated before)'
                 % ('raised %s' % st.out[1] if st.out[0] == 'err' else 'succeeded',
                    'fails' if failed else 'succeeds', at, done))]
    if got != want:
        return [(i, 'update-many-granularity' if failed else 'update-many-state',
                 '%s update_many (%s) left %r; one document at a time (%d document(s) updated%s) '
                 'leaves %r' % ('failed' if failed else 'successful',
                                st.out[1] if failed else st.out[1:], got, done,
                                ', document #%r of the collection raises' % at if failed else '',
                                want))]
    return []


def check_batch(history, steps, i, bulk=False):
    """insert_many / bulk_write ≡ the operations one at a time (ordered: up to the first
    failure; unordered: every operation that succeeds on its own)"""
    st = steps[i]
    ordered = st.op[2]
    what = 'bulk_write' if bulk else 'insert_many'
    oids = st.oids
    twin = histcheck.run_history(twin_history(history, i), oids)
    outs = [t.out for t in twin[i:]]
    expected_state = None
    n_ok = 0
    failed_at = []
    for j, o in enumerate(outs):
        if o[0] == 'err':
            failed_at.append((j, o[1]))
            if ordered or o[1] not in ('DuplicateKeyError', 'WriteError'):
                expected_state = state_of(twin[i + j].obs)
                break
        else:
            n_ok += 1
        expected_state = state_of(twin[i + j].obs)
    got_state = histcheck.renumber_state(state_of(st.obs))
    expected_state = histcheck.renumber_state(expected_state)
    fails = []
    if bulk:
        # a multi update of the batch is an update_many on the twin: document granularity there
        th = twin_history(history, i)
        for j, t in enumerate(twin[i:]):
            if t.op[0] == 'update_many':
                fails.extend((i, l, 'request %d of the bulk_write issued alone: %s' % (j, w))
                             for (_, l, w) in check_update_many(th, twin, i + j))
            if t.out[0] == 'err' and (ordered or t.out[1] not in ('DuplicateKeyError',
                                                                    'WriteError')):
                break
    # generated ObjectIds differ between the two runs only in numbering, which canon renumbers
    if got_state != expected_state:
        fails.append((i, 'batch-state', '%s(ordered=%s) left %r, one-at-a-time leaves %r'
                      % (what, ordered, got_state, expected_state)))
    if failed_at and all(e in ('DuplicateKeyError', 'WriteError') for _, e in failed_at):
        if st.out[0] != 'err' or st.out[1] != 'BulkWriteError':
            fails.append((i, 'batch-error', 'expected BulkWriteError, got %r' % (st.out,)))
        else:
            det = st.out[2]
            idx = [w.get('index') for w in det.get('writeErrors', [])]
            if idx != [j for j, _ in failed_at] or (not bulk and det.get('nInserted') != n_ok):
                fails.append((i, 'batch-details', 'details %r, expected failing positions %r and '
                              'nInserted %d' % (det, failed_at, n_ok)))
    elif not failed_at and st.out[0] == 'err':
        fails.append((i, 'batch-error', '%s raised %r but every operation succeeds alone'
                      % (what, st.out,)))
    return fails


def nontrivial(history, steps):
    for st in steps:
        if st.out[0] != 'err':
            continue
        k = st.op[0]
        if k in ('update_one', 'replace_one') and isinstance(st.op[2], dict) and len(st.op[2]) > 1:
            return True
        if k == 'insert_many' and st.out[1] == 'BulkWriteError':
            idx = [w.get('index') for w in st.out[2].get('writeErrors', [])]
            if idx and idx[0] > 0:
                return True
        if k == 'update_many' and ((st.extra or {}).get('walk') or {}).get('updated_before'):
            return True
    return False


run, replay, replay_finding = histcheck.module_api(sys.modules[__name__], 1000, 25000, fixed=True)
