"""C05 — `_id` is a primary key: unique, generated when absent, immutable.

Histories of inserts, bulk inserts, updates, replacements, upserts and deletes (scalar and
embedded-document `_id`s, many rejected writes) run on the real code and on the Lean model
`MongoModel.step`; the property is also stated directly on what python shows after every step.
"""
import copy

import common
import hist
import histcheck
from histcheck import freeze

ID = 'C05'
SALT = 505
RULE = ('history = 1-40 generated operations on one collection (inserts with and without _id, '
        'insert_many, update/replace with and without upsert, deletes, unique indexes; small id '
        'pool so duplicates are frequent; >= 25% rejected writes); after every step the outcome '
        'and the _id sequence of find({}) are compared with the Lean model, and uniqueness / '
        'freshness / immutability / lookup-by-_id are checked directly on python; non-trivial = '
        'the history contains a rejected write followed by a successful one; distinct = by hash '
        'of the history')
ASSUMPTIONS = [
    'the view compared with the model is the outcome of each step and the _id sequence '
    '(document bodies are the business of C02)',
    'list-valued _id (rejected with TypeError by the code) and _id sub-documents holding arrays '
    'of sub-documents (unhashable) are outside the generator',
    'negative array indexes and the other inputs the update model does not express: unmodelled '
    '(history cut there); these histories draw no positional $ paths (the positional operator is modelled '
    'and judged under C02)',
]

known_labels = {e['id'] for e in common.load_known(ID) if e.get('status') == 'known'}


def histgen(rng, oids):
    return hist.HistGen(rng, oids, weights=dict(
        insert_one=24, insert_many=8, update_one=12, update_many=5, replace_one=12,
        delete_one=6, delete_many=2, find=2, count=0, distinct=0, create_index=3,
        drop_index=0, drop_indexes=1, drop=1), ttl=False, date_ids=True)


def length(rng):
    return rng.choice([3, 6, 10, 15, 25, 40])


def view(op, out, obs):
    ids = histcheck.ids_of(obs)
    k = op[0]
    if out[0] == 'err':
        o = out[:2] if out[1] != 'BulkWriteError' else out
    elif k in ('insert_one', 'insert_many'):
        o = ('val', freeze(out[1]))
    elif k in ('update_one', 'update_many', 'replace_one'):
        o = ('val', freeze(out[1].get('upserted')) if isinstance(out[1], dict) else None)
    elif k in ('delete_one', 'delete_many'):
        o = out
    else:
        o = ('val', None)
    return (o, ids)


def probe(runner, op):
    """lookup by `_id` of every stored document (python only)"""
    res = []
    for d in runner.raw_docs():
        if '_id' not in d:
            res.append(('<no _id>', None))
            continue
        try:
            got = list(runner.coll.find({'_id': d['_id']}))
        except Exception as e:  # pylint: disable=broad-except
            got = 'raised ' + type(e).__name__
        res.append((copy.deepcopy(d['_id']), got, copy.deepcopy(d)))
    return res


def oracle(history, steps):
    fails = []
    prev_ids = []
    for i, st in enumerate(steps):
        docs = st.obs.get('docs') if isinstance(st.obs, dict) else None
        if not isinstance(docs, list):
            fails.append((i, 'observation', 'find({}) raised: %r' % (docs,)))
            break
        ids = [d.get('_id', '<missing>') if isinstance(d, dict) else '<non-doc>' for d in docs]
        k = st.op[0]
        ok = st.out[0] != 'err'
        # uniqueness and presence
        if '<missing>' in ids:
            fails.append((i, 'id-missing', 'a stored document has no _id: %r' % (docs,)))
        for a in range(len(ids)):
            for b in range(a + 1, len(ids)):
                if ids[a] == ids[b]:
                    fails.append((i, 'id-duplicate', 'two documents with equal _id %r' % (ids[a],)))
        # inserts
        if k == 'insert_one':
            given = st.op[1].get('_id', '<none>') if isinstance(st.op[1], dict) else '<none>'
            caller = (st.extra or {}).get('caller_doc')
            if given == '<none>' and ok:
                new = st.out[1]
                if any(new == x for x in prev_ids):
                    fails.append((i, 'id-not-fresh', 'generated _id %r already present' % (new,)))
                if not isinstance(caller, dict) or '_id' not in caller:
                    fails.append((i, 'id-not-reported', 'insert did not write the generated _id '
                                  'into the caller\'s document'))
                if not any(new == x for x in ids):
                    fails.append((i, 'id-lost', 'inserted _id %r not found afterwards' % (new,)))
            if given != '<none>':
                dup = any(given == x for x in prev_ids)
                if dup and (ok or st.out[1] != 'DuplicateKeyError'):
                    fails.append((i, 'dup-accepted', 'insert of an existing _id %r gave %r'
                                  % (given, st.out)))
                if dup and ids != prev_ids:
                    fails.append((i, 'dup-trace', 'rejected duplicate insert changed the ids'))
        # immutability: nothing but inserts, upserts, deletes and drop changes the id sequence
        if k in ('update_one', 'update_many', 'replace_one'):
            n = len(prev_ids)
            if len(ids) < n or any(not same_id(a, b) for a, b in zip(prev_ids, ids[:n])):
                only_bool = len(ids) >= n and all(a == b for a, b in zip(prev_ids, ids[:n]))
                fails.append((i, 'id-boolnum' if only_bool else 'id-changed',
                              '%s changed or removed an _id: %r -> %r' % (k, prev_ids, ids)))
            elif len(ids) > n + (1 if st.op[3] else 0):
                fails.append((i, 'id-extra', '%s added documents: %r -> %r' % (k, prev_ids, ids)))
            elif len(ids) == n + 1 and ok:
                up = st.out[1].get('upserted') if isinstance(st.out[1], dict) else None
                if not same_id(up, ids[-1]) and up is not None:
                    fails.append((i, 'upserted-id', 'upserted_id %r but stored %r' % (up, ids[-1])))
        if k in ('delete_one', 'delete_many', 'find', 'count', 'distinct', 'create_index',
                 'drop_index', 'drop_indexes'):
            # ids may only disappear (deletes), never change
            it = iter(prev_ids)
            for x in ids:
                for y in it:
                    if same_id(x, y):
                        break
                else:
                    fails.append((i, 'id-changed', '%s changed an _id: %r -> %r' % (k, prev_ids, ids)))
                    break
        # lookup by _id returns exactly the document stored with it
        for entry in ((st.extra or {}).get('probe') or []):
            if entry[0] == '<no _id>':
                continue
            idv, got, d = entry
            if not isinstance(got, list) or len(got) != 1 or got[0] != d:
                fails.append((i, 'lookup', 'find({_id: %r}) returned %r' % (idv, got)))
        prev_ids = ids
        if any(l not in known_labels for (_, l, _) in fails) or len(fails) > 50:
            break
    return fails


def same_id(a, b):
    """equal as MongoDB values: Python ==, but a boolean is never a number"""
    return a == b and bool_shape(a) == bool_shape(b)


def bool_shape(v):
    if isinstance(v, bool):
        return 'b'
    if isinstance(v, dict):
        return tuple(sorted((k, bool_shape(x)) for k, x in v.items()))
    if isinstance(v, list):
        return tuple(bool_shape(x) for x in v)
    return ''



def nontrivial(history, steps):
    seen_reject = False
    for st in steps:
        if st.out[0] == 'err' and st.op[0] not in ('find', 'count', 'distinct'):
            seen_reject = True
        elif seen_reject and st.op[0] in ('insert_one', 'insert_many', 'update_one', 'update_many',
                                          'replace_one', 'delete_one'):
            return True
    return False


def run(ctx, proof, driver_ok):
    import sys
    eng = histcheck.Engine(ctx, sys.modules[__name__])
    if not driver_ok:
        return {'explanation': 'model driver unavailable'}
    # the witnesses of the repaired findings first: a recurrence is a VIOLATION
    replayed = histcheck.replay_fixed(eng, sys.modules[__name__])
    cov = eng.run(ctx.n(1200, 30000))
    cov['fixed_witnesses_replayed'] = replayed
    return cov


def replay(ctx, path):
    import sys
    return histcheck.Engine(ctx, sys.modules[__name__]).replay(path)


def replay_finding(ctx, e):
    import sys
    import wire
    oids = wire.Oids()
    history = wire.dec(e['witness']['wire_history'], oids)
    py = histcheck.run_history(history, oids, probe=probe)
    return any(label == e['id'] for (_, label, _) in oracle(history, py))
