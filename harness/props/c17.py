"""C17 — databases, collections and indexes appear, persist, move, vanish as in MongoDB.

History correspondence.  A case is a history of 1-30 catalog / data operations over three
clients (0 and 1 independent, 2 built on client 0's ServerStore), two database names, three
collection names (+ `system.js`, + malformed names), issued through handles that are either
obtained on the spot or were obtained earlier and are reused (after drops and renames too).
After EVERY operation the whole observable state is read back through the public API
(`list_database_names()` of every client, `list_collection_names()` of every database,
`index_information()` and the `_id`s of `find()` of every collection, through fresh handles and
through the oldest handle objects held), and every single call - the operations and the reads -
is compared with

  impl   the Lean model MongoModel.Catalog.step (faithful to the code as it is),
  spec   the oracle Spec.Catalog.step taken from the abstraction of the model's state (per step),
  spech  the oracle run along the whole history from the empty server (never re-synchronised),

together with the exclusion classes (Spec.CatalogDomain.reasons) of the step and whether the
model's and the oracle's successor states denote the same maps.  The reads are part of the
history the model sees (a read lazily creates stores in mongomock, and that is observable
through list_collection_names(filter=...) whenever the code lists more than what exists).

The only exclusion classes left are the two scope limits (KNOWN_SCOPE); no known finding
remains.  vanish_last_doc, vanish_last_index (existence is recorded since the repair: a collection
exists from its first insert / index creation / create_collection until it is dropped),
rename_self_droptarget, filter_lists_uncreated, drop_database_foreign_handle,
drop_collection_foreign_handle and system_create_existing were repaired in the library: they are
no class of D any more, the model follows the repaired code, so the old behaviour departs from
model and oracle alike and is a VIOLATION.  The witnesses of the repaired findings
(known_findings.json, status "fixed") are run through the same correspondence on every run.
"""
import collections
import json
import random

import mongomock
from mongomock.write_concern import WriteConcern

import common
import wire

RULE = ('case = one history of 1-30 catalog/data operations over 3 clients (one sharing a store), '
        '2 databases, 3 collection names, through old and fresh handles, with the full observable '
        'state read back after every operation; non-trivial = the history contains a successful '
        'drop / rename / drop_database followed by the reuse of a handle object obtained before '
        'it; distinct = by hash of the operation list')

ASSUMPTIONS = [
    'collection contents are abstracted to the list of _id values (documents are {_id: int}); '
    'unique indexes are only created sparse (uniqueness and TTL are other properties)',
    'list_collection_names(filter=...) is modelled for {name: s}, {name: {$eq: s}}, '
    '{name: {$ne: s}}; {name: ""} (NotImplementedError) is a scope limit',
    'a handle is modelled by the (client, database, collection) it denotes; the correspondence '
    'checks on every run that old and fresh handle objects behave alike',
    'listings are compared as sets (sorted), error messages are not compared, error classes are',
]

SIGMA = [0, 1, 0]          # client -> server store
DBS = ['d1', 'd2']
COLLS = ['a', 'b', 'c']
SYSTEM = 'system.js'
BAD_NAMES = ['', 'a..b', '$x', '.a', 'a.', 'a\x00b']
KEYS = [[['x', 1]], [['x', -1]], [['y', 1]], [['x', 1], ['y', -1]]]
OPTS = [(False, False), (False, False), (False, True), (True, True)]
KNOWN_SCOPE = {'unobtained_handle', 'filter_falsy_name'}
DROPPING = {'coll_drop', 'coll_rename', 'drop_collection', 'drop_collection_h',
            'rename_collection', 'drop_database', 'drop_database_h'}
COLL_ACTIONS = {'insert', 'delete_one', 'delete_all', 'find', 'index_information',
                'create_index', 'drop_index', 'drop_indexes', 'coll_drop', 'coll_rename'}


def S(s):
    return 'S' + s.encode('utf-8').hex()


def unS(t):
    return bytes.fromhex(t[1:]).decode('utf-8')


def gen_name(keys):
    return '_'.join('%s_%d' % (f, d) for f, d in keys)


def fmt_names(l):
    return 'names:' + ','.join(sorted(S(n) for n in l))


def fmt_index(name, info):
    return '%s/%d%d/%s' % (S(name), 1 if info.get('unique') else 0, 1 if info.get('sparse') else 0,
                           '+'.join('%s:%d' % (S(f), d) for f, d in info['key']))


def fmt_indexes(info):
    return 'ix:' + ','.join(sorted(fmt_index(n, i) for n, i in info.items()))


def canon(out):
    """canonical form of a driver output (listings and index maps are sets)"""
    for p in ('names:', 'ix:'):
        if out.startswith(p):
            body = out[len(p):]
            return p + ','.join(sorted(body.split(','))) if body else p
    return out


class Exec(object):
    """runs a history on the real code, recording every call with its model operation"""

    def __init__(self, obs='full', obs_colls=None):
        self.clients = [mongomock.MongoClient(), mongomock.MongoClient()]
        self.clients.append(mongomock.MongoClient(_store=self.clients[0]._store))
        self.dbpool = collections.OrderedDict()
        self.cpool = collections.OrderedDict()
        self.obs = obs
        self.obs_colls = list(obs_colls or COLLS)
        self.ops = []      # model operation lines
        self.py = []       # python outcome per operation
        self.tag = []      # (action index, is observation)
        self.cur = 0
        self.in_obs = False
        self.reused = []   # per action: an old handle object was reused

    # -- recording --------------------------------------------------------------------------
    def call(self, line, fn):
        try:
            out = fn()
        except Exception as e:  # pylint: disable=broad-except
            out = '!' + wire.err_name(e)
        self.ops.append(line)
        self.py.append(out)
        self.tag.append((self.cur, self.in_obs))
        return out

    # -- handles ----------------------------------------------------------------------------
    def dbh(self, c, d, mode='new'):
        if mode == 'old' and (c, d) in self.dbpool:
            self.used_old = True
            return self.dbpool[(c, d)]
        box = []

        def get():
            box.append(self.clients[c][d])
            return 'ok'
        self.call('gd %d %s' % (c, S(d)), get)
        self.dbpool.setdefault((c, d), box[0])
        return box[0]

    def ch(self, c, d, n, mode='new', db=None):
        """a Collection handle, or None when obtaining it raised (the outcome is recorded)"""
        if mode == 'old' and (c, d, n) in self.cpool:
            self.used_old = True
            return self.cpool[(c, d, n)]
        if db is None:
            db = self.dbh(c, d, mode)
        box = []

        def get():
            if mode == 'wc':
                box.append(db.get_collection(n, write_concern=WriteConcern(w=2)))
            else:
                box.append(db[n])
            return 'ok'
        out = self.call('gc %d %s %s' % (c, S(d), S(n)), get)
        if out != 'ok':
            return None
        self.cpool.setdefault((c, d, n), box[0])
        return box[0]

    # -- the operations ---------------------------------------------------------------------
    def act(self, a):
        self.used_old = False
        kind = a[0]
        if kind in COLL_ACTIONS:
            c, d, n, mode = a[1:5]
            h = self.ch(c, d, n, mode)
            if h is None:
                return
            pre = 'co %d %s %s ' % (c, S(d), S(n))
            if kind == 'insert':
                self.call(pre + 'in %d' % a[5],
                          lambda: (h.insert_one({'_id': a[5]}), 'ok')[1])
            elif kind == 'delete_one':
                self.call(pre + 'de %d' % a[5],
                          lambda: 'n:%d' % h.delete_one({'_id': a[5]}).deleted_count)
            elif kind == 'delete_all':
                self.call(pre + 'da', lambda: 'n:%d' % h.delete_many({}).deleted_count)
            elif kind == 'find':
                self.read_find(h, c, d, n)
            elif kind == 'index_information':
                self.read_ix(h, c, d, n)
            elif kind == 'create_index':
                keys, name, unique, sparse = a[5:9]
                kw = {}
                if name is not None:
                    kw['name'] = name
                if unique:
                    kw['unique'] = True
                if sparse:
                    kw['sparse'] = True
                line = pre + 'ci %s %d %d %d %s' % (
                    '-' if name is None else S(name), unique, sparse, len(keys),
                    ' '.join('%s %d' % (S(f), dr) for f, dr in keys))
                self.call(line, lambda: 'nm:' + S(
                    h.create_index([(f, dr) for f, dr in keys], **kw)))
            elif kind == 'drop_index':
                name, keys = a[5:7]
                if name is not None:
                    self.call(pre + 'di ' + S(name), lambda: (h.drop_index(name), 'ok')[1])
                else:
                    line = pre + 'dk %d %s' % (len(keys), ' '.join(
                        '%s %d' % (S(f), dr) for f, dr in keys))
                    self.call(line, lambda: (h.drop_index([(f, dr) for f, dr in keys]), 'ok')[1])
            elif kind == 'drop_indexes':
                self.call(pre + 'dx', lambda: (h.drop_indexes(), 'ok')[1])
            elif kind == 'coll_drop':
                self.call(pre + 'dr', lambda: (h.drop(), 'ok')[1])
            elif kind == 'coll_rename':
                n2, dt = a[5:7]
                line = 'cr %d %s %s %s %d' % (c, S(d), S(n), S(n2), dt)
                if dt:
                    self.call(line, lambda: (h.rename(n2, dropTarget=True), 'ok')[1])
                else:
                    self.call(line, lambda: (h.rename(n2), 'ok')[1])
        elif kind == 'get_coll':
            c, d, mode, n = a[1:5]
            self.ch(c, d, n, 'new', db=self.dbh(c, d, mode))
        elif kind == 'create_collection':
            c, d, mode, n = a[1:5]
            db = self.dbh(c, d, mode)
            self.call('cc %d %s %s' % (c, S(d), S(n)), lambda: (db.create_collection(n), 'ok')[1])
        elif kind == 'drop_collection':
            c, d, mode, n = a[1:5]
            db = self.dbh(c, d, mode)
            self.call('dc %d %s %s' % (c, S(d), S(n)), lambda: (db.drop_collection(n), 'ok')[1])
        elif kind == 'drop_collection_h':
            c, d, mode, c2, d2, n2, mode2 = a[1:8]
            db = self.dbh(c, d, mode)
            h = self.ch(c2, d2, n2, mode2)
            if h is None:
                return
            self.call('dh %d %s %d %s %s' % (c, S(d), c2, S(d2), S(n2)),
                      lambda: (db.drop_collection(h), 'ok')[1])
        elif kind == 'rename_collection':
            c, d, mode, n, n2, dt = a[1:7]
            db = self.dbh(c, d, mode)
            line = 'rn %d %s %s %s %d' % (c, S(d), S(n), S(n2), dt)
            if dt:
                self.call(line, lambda: (db.rename_collection(n, n2, dropTarget=True), 'ok')[1])
            else:
                self.call(line, lambda: (db.rename_collection(n, n2), 'ok')[1])
        elif kind == 'list_collection_names':
            c, d, mode, flt = a[1:5]
            db = self.dbh(c, d, mode)
            if flt is None:
                self.read_lc(db, c, d)
            else:
                k, s = flt
                pyf = {'e': {'name': s}, 'q': {'name': {'$eq': s}}, 'n': {'name': {'$ne': s}}}[k]
                self.call('lf %d %s %s %s' % (c, S(d), k, S(s)),
                          lambda: fmt_names(db.list_collection_names(filter=pyf)))
        elif kind == 'list_database_names':
            self.read_ld(a[1])
        elif kind == 'drop_database':
            c, d = a[1:3]
            self.call('dd %d %s' % (c, S(d)), lambda: (self.clients[c].drop_database(d), 'ok')[1])
        elif kind == 'drop_database_h':
            c, c2, d2, mode2 = a[1:5]
            h = self.dbh(c2, d2, mode2)
            self.call('dD %d %d %s' % (c, c2, S(d2)),
                      lambda: (self.clients[c].drop_database(h), 'ok')[1])
        else:
            raise ValueError('unknown action %r' % (a,))

    def read_find(self, h, c, d, n):
        return self.call('co %d %s %s fi' % (c, S(d), S(n)),
                         lambda: 'ids:' + ','.join(str(x['_id']) for x in h.find()))

    def read_ix(self, h, c, d, n):
        def get():
            info = h.index_information()
            # direct statement: list_indexes() and index_information() list the same indexes
            if [x['name'] for x in h.list_indexes()] != list(info):
                return 'ix:!list_indexes-disagrees-with-index_information'
            return fmt_indexes(info)
        return self.call('co %d %s %s ix' % (c, S(d), S(n)), get)

    def read_lc(self, db, c, d):
        return self.call('lc %d %s' % (c, S(d)), lambda: fmt_names(db.list_collection_names()))

    def read_ld(self, c):
        return self.call('ld %d' % c, lambda: fmt_names(self.clients[c].list_database_names()))

    # -- the observable state ---------------------------------------------------------------
    def observe(self, full):
        self.in_obs = True
        old = list(self.cpool.items())[:6]
        for c in range(len(self.clients)):
            self.read_ld(c)
            for d in DBS:
                db = self.dbh(c, d, 'new')
                self.read_lc(db, c, d)
                if not full:
                    continue
                for n in self.obs_colls:
                    h = self.ch(c, d, n, 'new')
                    self.read_ix(h, c, d, n)
                    self.read_find(h, c, d, n)
        if full:
            for (c, d, n), h in old:
                self.read_ix(h, c, d, n)
                self.read_find(h, c, d, n)
        self.in_obs = False

    def run(self, actions):
        for i, a in enumerate(actions):
            self.cur = i
            self.act(a)
            self.reused.append(self.used_old)
            if self.obs == 'end' and i < len(actions) - 1:
                # no observation between the steps: a client's caches hold only what the
                # history itself made it touch
                continue
            self.observe(self.obs == 'full' or i == len(actions) - 1)
        return self

    def line(self):
        return 'c17 %s : %s' % (' '.join(str(x) for x in SIGMA), ' ; '.join(self.ops))


def obs_colls_of(actions):
    extra = []
    for a in actions:
        for x in a[1:]:
            if x == SYSTEM and SYSTEM not in extra:
                extra.append(SYSTEM)
    return COLLS + extra


def parse_answer(ans):
    out = []
    for part in ans.split(' ; '):
        f = [x.strip() for x in part.split('|')]
        if len(f) != 5:
            raise RuntimeError('bad driver answer %r' % part[:200])
        out.append((canon(f[0]), canon(f[1]), canon(f[2]), f[3].split(), f[4] == 'T'))
    return out


# ------------------------------------------------------------------------------------------------
# generation

def gen_action(rng, st):
    c = rng.choice([0, 0, 0, 0, 0, 1, 1, 1, 2, 2, 2])
    d = rng.choice(['d1', 'd1', 'd1', 'd2'])
    n = SYSTEM if rng.random() < 0.03 else rng.choice(COLLS)
    mode = rng.choice(['old', 'old', 'old', 'old', 'old', 'new', 'new', 'new', 'new', 'wc'])
    dmode = rng.choice(['old', 'new'])
    k = rng.choices(
        ['insert', 'delete_one', 'delete_all', 'find', 'index_information', 'create_index',
         'drop_index', 'drop_indexes', 'coll_drop', 'coll_rename', 'get_coll',
         'create_collection', 'drop_collection', 'drop_collection_h', 'rename_collection',
         'list_collection_names', 'list_database_names', 'drop_database', 'drop_database_h'],
        [18, 7, 2, 4, 3, 9, 4, 2, 4, 4, 2, 8, 3, 3, 7, 4, 1, 3, 2])[0]
    if k in ('insert', 'delete_one'):
        return [k, c, d, n, mode, rng.choice([1, 1, 2, 2, 3, 4, 5])]
    if k in ('delete_all', 'find', 'index_information', 'drop_indexes', 'coll_drop'):
        return [k, c, d, n, mode]
    if k == 'create_index':
        keys = rng.choice(KEYS)
        unique, sparse = rng.choice(OPTS)
        name = rng.choice([None, None, None, None, 'nm', gen_name(keys)])
        return [k, c, d, n, mode, keys, name, unique, sparse]
    if k == 'drop_index':
        keys = rng.choice(KEYS)
        if rng.random() < 0.5:
            return [k, c, d, n, mode, rng.choice([gen_name(keys), gen_name(keys), 'nm', '_id_',
                                                  'nope']), None]
        return [k, c, d, n, mode, None, keys]
    if k in ('coll_rename', 'rename_collection'):
        x = rng.random()
        if x < 0.08:
            n2 = rng.choice(BAD_NAMES)
        elif x < 0.12:
            n2 = SYSTEM
        elif x < 0.2:
            n2 = n
        else:
            n2 = rng.choice([m for m in COLLS if m != n] or COLLS)
        dt = rng.random() < 0.4
        if k == 'coll_rename':
            return [k, c, d, n, mode, n2, dt]
        if rng.random() < 0.04:
            n = rng.choice(BAD_NAMES)      # the source name is not validated by the code
        return [k, c, d, dmode, n, n2, dt]
    if k == 'get_coll':
        return [k, c, d, dmode, rng.choice(BAD_NAMES + ['a', SYSTEM])]
    if k == 'create_collection':
        x = rng.random()
        return [k, c, d, dmode, rng.choice(BAD_NAMES) if x < 0.06 else SYSTEM if x < 0.12 else n]
    if k == 'drop_collection':
        return [k, c, d, dmode, rng.choice(BAD_NAMES) if rng.random() < 0.05 else n]
    if k == 'drop_collection_h':
        # the handle handed over comes from this database, or from any client's any database
        if rng.random() < 0.5:
            c2, d2 = rng.choice([c, c, 2 - c if c != 1 else 1]), d
        else:
            c2, d2 = rng.choice([0, 1, 2]), rng.choice(DBS)
        return [k, c, d, dmode, c2, d2, n, mode]
    if k == 'list_collection_names':
        if rng.random() < 0.35:
            s = rng.choice(COLLS + [SYSTEM, 'zz', ''])
            return [k, c, d, dmode, [rng.choice(['e', 'e', 'q', 'n']), s]]
        return [k, c, d, dmode, None]
    if k == 'list_database_names':
        return [k, c]
    if k == 'drop_database':
        return [k, c, d]
    if k == 'drop_database_h':
        c2 = c if rng.random() < 0.5 else rng.choice([0, 1, 2])
        return [k, c, c2, d, dmode]
    raise AssertionError(k)


def gen_history(rng):
    n = rng.choice([1, 2, 3, 4, 6, 8, 10, 14, 20, 30]) if rng.random() < 0.6 else rng.randint(1, 30)
    acts = []
    # some histories start by explicitly creating collections; in the others a collection comes
    # to exist by its first insert / index creation only, and has to survive being emptied
    if rng.random() < 0.3:
        for m in rng.sample(COLLS, rng.choice([1, 2, 3])):
            acts.append(['create_collection', rng.choice([0, 2]), 'd1', 'new', m])
    while len(acts) < n:
        acts.append(gen_action(rng, None))
    x = rng.random()
    obs = 'full' if x < 0.65 else ('light' if x < 0.82 else 'end')
    return {'actions': acts[:30], 'obs': obs}


# ------------------------------------------------------------------------------------------------
# judging

PRELUDE = """import mongomock
from mongomock.write_concern import WriteConcern
c = [mongomock.MongoClient(), mongomock.MongoClient()]
c.append(mongomock.MongoClient(_store=c[0]._store))   # client 2 shares client 0's store
dbp, cp = {}, {}                                      # the oldest handle objects
def DB(i, d, mode='new'):
    if mode == 'old' and (i, d) in dbp: return dbp[(i, d)]
    h = c[i][d]
    dbp.setdefault((i, d), h)
    return h
def C(i, d, n, mode='new'):
    if mode == 'old' and (i, d, n) in cp: return cp[(i, d, n)]
    db = DB(i, d, mode)
    h = db.get_collection(n, write_concern=WriteConcern(w=2)) if mode == 'wc' else db[n]
    cp.setdefault((i, d, n), h)
    return h
def T(f):
    try: print(repr(f()))
    except Exception as e: print('raised', type(e).__name__, e)
def state():   # (the check additionally reads index_information() and find() of every collection)
    for i in range(3):
        print('client', i, sorted(c[i].list_database_names()), {d: sorted(c[i][d].list_collection_names()) for d in ('d1', 'd2')})
"""


def snippet_line(a):
    k = a[0]
    if k in COLL_ACTIONS:
        h = 'C(%d, %r, %r, %r)' % tuple(a[1:5])
        if k == 'insert':
            return "T(lambda: %s.insert_one({'_id': %d}).inserted_id)" % (h, a[5])
        if k == 'delete_one':
            return "T(lambda: %s.delete_one({'_id': %d}).deleted_count)" % (h, a[5])
        if k == 'delete_all':
            return 'T(lambda: %s.delete_many({}).deleted_count)' % h
        if k == 'find':
            return "T(lambda: [x['_id'] for x in %s.find()])" % h
        if k == 'index_information':
            return 'T(lambda: sorted(%s.index_information()))' % h
        if k == 'create_index':
            keys, name, unique, sparse = a[5:9]
            kw = ''.join([', name=%r' % name if name is not None else '',
                          ', unique=True' if unique else '', ', sparse=True' if sparse else ''])
            return 'T(lambda: %s.create_index(%r%s))' % (h, [tuple(x) for x in keys], kw)
        if k == 'drop_index':
            arg = a[5] if a[5] is not None else [tuple(x) for x in a[6]]
            return 'T(lambda: %s.drop_index(%r))' % (h, arg)
        if k == 'drop_indexes':
            return 'T(lambda: %s.drop_indexes())' % h
        if k == 'coll_drop':
            return 'T(lambda: %s.drop())' % h
        if k == 'coll_rename':
            return 'T(lambda: %s.rename(%r%s))' % (h, a[5], ', dropTarget=True' if a[6] else '')
    if k == 'list_database_names':
        return 'T(lambda: sorted(c[%d].list_database_names()))' % a[1]
    if k == 'drop_database':
        return 'T(lambda: c[%d].drop_database(%r))' % (a[1], a[2])
    if k == 'drop_database_h':
        return 'T(lambda: c[%d].drop_database(DB(%d, %r, %r)))' % tuple(a[1:5])
    db = 'DB(%d, %r, %r)' % tuple(a[1:4])
    if k == 'get_coll':
        return 'T(lambda: %s[%r])' % (db, a[4])
    if k == 'create_collection':
        return 'T(lambda: %s.create_collection(%r))' % (db, a[4])
    if k == 'drop_collection':
        return 'T(lambda: %s.drop_collection(%r))' % (db, a[4])
    if k == 'drop_collection_h':
        return 'T(lambda: %s.drop_collection(C(%d, %r, %r, %r)))' % ((db,) + tuple(a[4:8]))
    if k == 'rename_collection':
        return 'T(lambda: %s.rename_collection(%r, %r%s))' % (
            db, a[4], a[5], ', dropTarget=True' if a[6] else '')
    if k == 'list_collection_names':
        if a[4] is None:
            return 'T(lambda: sorted(%s.list_collection_names()))' % db
        kk, x = a[4]
        pyf = {'e': {'name': x}, 'q': {'name': {'$eq': x}}, 'n': {'name': {'$ne': x}}}[kk]
        return 'T(lambda: sorted(%s.list_collection_names(filter=%r)))' % (db, pyf)
    return '# ' + json.dumps(a)


def snippet(case):
    """a runnable Python rendering of the history (for the replay file)"""
    return PRELUDE + ''.join(snippet_line(a) + '; state()\n' for a in case['actions'])


def execute(case):
    ex = Exec(case.get('obs', 'full'), obs_colls_of(case['actions']))
    ex.run(case['actions'])
    return ex


class Verdict(object):
    def __init__(self):
        self.kind = 'ok'          # ok | stale | violation | internal
        self.first = None
        self.findings = collections.Counter()
        self.unlisted = []
        self.in_d = True
        self.steps_d = 0
        self.steps_f = 0
        self.steps_scope = 0


def judge(ex, answers, known):
    v = Verdict()
    first_impl = None
    spech_equal = True
    for k, (py, (impl, ss, sh, reasons, agree)) in enumerate(zip(ex.py, answers)):
        py = canon(py)
        if reasons:
            v.in_d = False
        if py != impl and first_impl is None:
            first_impl = k
        if py != sh:
            spech_equal = False
    if first_impl is None:
        for k, (impl, ss, sh, reasons, agree) in enumerate(answers):
            if set(reasons) & KNOWN_SCOPE:
                v.steps_scope += 1
                continue
            if not reasons:
                v.steps_d += 1
                if impl != ss or not agree:
                    v.kind = 'internal'
                    v.first = k
                    return v
                continue
            v.steps_f += 1
            if impl != ss or not agree:
                for r in reasons:
                    v.findings[r] += 1
                if not set(reasons) & known:
                    v.unlisted.append((k, reasons))
        if v.in_d and not spech_equal:
            v.kind = 'internal'
            v.first = -1
        return v
    v.first = first_impl
    v.kind = 'stale' if spech_equal else 'violation'
    return v


def describe(ex, answers, k):
    impl, ss, sh, reasons, agree = answers[k]
    return {'operation_index': k, 'model_operation': ex.ops[k], 'after_action': ex.tag[k][0],
            'is_observation': ex.tag[k][1], 'python': canon(ex.py[k]), 'impl': impl,
            'spec_from_state': ss, 'spec_along_history': sh, 'reasons': reasons}


def run_batch(cases):
    exs = [execute(c) for c in cases]
    outs = wire.run_driver([e.line() for e in exs])
    return exs, [parse_answer(o) for o in outs]


def is_violation(case, known):
    exs, ans = run_batch([case])
    return judge(exs[0], ans[0], known).kind == 'violation'


def shrink(case, known, budget=150):
    """delta debugging on the operation list"""
    acts = list(case['actions'])
    n = 2
    while len(acts) >= 2 and budget > 0:
        chunk = max(1, len(acts) // n)
        reduced = False
        for i in range(0, len(acts), chunk):
            cand = acts[:i] + acts[i + chunk:]
            if not cand:
                continue
            budget -= 1
            if is_violation({'actions': cand, 'obs': 'full'}, known):
                acts = cand
                n = max(n - 1, 2)
                reduced = True
                break
            if budget <= 0:
                break
        if not reduced:
            if chunk == 1:
                break
            n = min(n * 2, len(acts))
    return {'actions': acts, 'obs': 'full'}


def nontrivial(case, ex):
    """a successful drop / rename / drop_database followed by the reuse of an old handle"""
    first_ok = None
    for k, (a, out) in enumerate(zip(ex.ops, ex.py)):
        i, is_obs = ex.tag[k]
        if is_obs:
            continue
        if case['actions'][i][0] in DROPPING and out == 'ok' and a.split()[0] not in ('gd', 'gc'):
            first_ok = i
            break
    if first_ok is None:
        return False
    return any(ex.reused[j] for j in range(first_ok + 1, len(ex.reused)))


def report_violation(ctx, case, known, v, ex, answers):
    small = case
    try:
        if len(case['actions']) > 1:
            small = shrink(case, known)
    except Exception as e:  # pylint: disable=broad-except
        ctx.notes.append('shrinking failed: %r' % (e,))
    exs, ans = run_batch([small])
    v2 = judge(exs[0], ans[0], known)
    if v2.kind != 'violation':
        small, exs, ans, v2 = case, [ex], [answers], v
    ctx.violation({
        'kind': 'history on which the real code departs from the catalog rules (python differs '
                'from the model Impl and from the oracle Spec)',
        'actions': small['actions'], 'obs': small['obs'],
        'history_in_D': v2.in_d,
        'first_difference': describe(exs[0], ans[0], v2.first),
        'model_line': exs[0].line()[:4000],
        'python': snippet(small),
        'original_length': len(case['actions']),
    }, rank=(0 if v2.in_d else 1000) + len(small['actions']))


def run(ctx, proof, driver_ok):
    if not driver_ok:
        return {'explanation': 'model driver unavailable; no correspondence run'}
    n = ctx.n(1200, 15000)
    rng = random.Random(ctx.seed * 1000003 + 1717)
    known = {e['id'] for e in common.load_known('C17') if e.get('status') == 'known'}
    done = 0
    evaluations = 0
    steps = 0
    zones = collections.Counter()
    kinds = collections.Counter()
    outcomes = collections.Counter()
    findings = collections.Counter()
    lens = collections.Counter()
    nontriv = set()
    samples = []
    hist_d = 0
    stale = 0
    batch = 250
    # the witnesses of the findings repaired in the library, through the same correspondence
    regress = [e for e in common.load_known('C17') if e.get('status') == 'fixed']
    if regress:
        rcases = [{'actions': e['witness']['actions'], 'obs': 'full'} for e in regress]
        rexs, ranswers = run_batch(rcases)
        for e, case, ex, ans in zip(regress, rcases, rexs, ranswers):
            evaluations += len(ex.ops)
            v = judge(ex, ans, known)
            if v.kind == 'internal':
                raise RuntimeError('model and oracle differ inside D on the witness of %s: %r'
                                   % (e['id'], describe(ex, ans, max(v.first, 0))))
            if v.kind == 'violation':
                report_violation(ctx, case, known, v, ex, ans)
            elif v.kind == 'stale':
                ctx.notes.append('model stale on the witness of %s' % e['id'])
            elif not v.in_d or v.unlisted:
                ctx.violation({'kind': 'the witness of the repaired finding %s is outside D'
                                       % e['id'], 'actions': case['actions'], 'obs': 'full',
                               'python': snippet(case)}, rank=1)
    while done < n and not ctx.too_many():
        cases = [gen_history(rng) for _ in range(min(batch, n - done))]
        done += len(cases)
        exs, answers = run_batch(cases)
        for case, ex, ans in zip(cases, exs, answers):
            evaluations += len(ex.ops)
            steps += len(case['actions'])
            lens[min(30, (len(case['actions']) + 4) // 5 * 5)] += 1
            for a in case['actions']:
                kinds[a[0]] += 1
            for k, out in enumerate(ex.py):
                if not ex.tag[k][1]:
                    outcomes[out.split(':')[0] if not out.startswith('!') else out] += 1
            v = judge(ex, ans, known)
            zones['D'] += v.steps_d
            zones['F-minus-D'] += v.steps_f
            zones['scope'] += v.steps_scope
            if v.kind == 'internal':
                raise RuntimeError('model and oracle differ inside D (contradicts the theorem): '
                                   '%r' % (describe(ex, ans, max(v.first, 0)),))
            if v.kind == 'violation':
                report_violation(ctx, case, known, v, ex, ans)
                continue
            if v.kind == 'stale':
                stale += 1
                ctx.notes.append('model stale but python follows the rules: ' +
                                 json.dumps(describe(ex, ans, v.first))[:300])
                continue
            if v.in_d:
                hist_d += 1
            for r, c in v.findings.items():
                findings[r] += c
                if r in known:
                    ctx.known_seen[r] = ctx.known_seen.get(r, 0) + c
            for k, reasons in v.unlisted:
                ctx.violation({
                    'kind': 'deviation from the catalog rules in an unlisted class',
                    'actions': case['actions'], 'obs': case['obs'],
                    'first_difference': describe(ex, ans, k), 'python': snippet(case)})
            if nontrivial(case, ex):
                h = common.case_hash(case['actions'])
                if h not in nontriv:
                    nontriv.add(h)
                    if len(samples) < 4 and len(case['actions']) <= 8:
                        samples.append({'actions': case['actions'], 'obs': case['obs'],
                                        'calls': len(ex.ops), 'history_in_D': v.in_d})
    return {
        'evaluations': evaluations,
        'distinct_nontrivial': len(nontriv),
        'rule': RULE,
        'samples': samples,
        'cases': done,
        'histories_entirely_in_D': hist_d,
        'history_steps': steps,
        'zones': dict(zones),
        'deviations_by_reason': dict(findings),
        'model_stale_histories': stale,
        'repaired_finding_witnesses_replayed': [e['id'] for e in regress],
        'operation_histogram': dict(kinds),
        'python_outcomes': dict(outcomes),
        'history_length_histogram': {str(k): v for k, v in sorted(lens.items())},
    }


def replay(ctx, path):
    e = json.load(open(path))
    case = {'actions': e['actions'], 'obs': e.get('obs', 'full')}
    known = {x['id'] for x in common.load_known('C17') if x.get('status') == 'known'}
    exs, ans = run_batch([case])
    v = judge(exs[0], ans[0], known)
    out = {'verdict': v.kind, 'history_in_D': v.in_d}
    if v.first is not None and v.first >= 0:
        out['first_difference'] = describe(exs[0], ans[0], v.first)
    if v.kind == 'violation':
        ctx.violation(dict(e, replayed=True), rank=0)
    for k, reasons in v.unlisted:
        ctx.violation({'kind': 'deviation in an unlisted class', 'actions': case['actions'],
                       'first_difference': describe(exs[0], ans[0], k)})
    print(json.dumps(out, default=repr))
    return common.finish(ctx)


def replay_finding(ctx, e):
    """does the listed witness history still end in the listed deviation on the real code?"""
    w = e['witness']
    ex = Exec('light')
    for i, a in enumerate(w['actions']):
        ex.cur = i
        ex.act(a)
    py = canon(ex.py[-1])
    return py != w['spec']
