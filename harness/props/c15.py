"""C15 — bulk_write is equivalent to issuing its operations one at a time.

Histories containing bulk_write calls (all six write models, upserts, failing operations,
ordered and unordered) run on the real code and on the Lean model (`MongoModel.bulkWrite`).
Directly on python: every bulk_write is replayed on a twin collection as individual
insert_one / update_one / update_many / replace_one / delete_one / delete_many calls, and the
final state, the counters (sums of the individual results), the upserted ids with their operation
indexes and the BulkWriteError details must agree; an empty bulk and a second execute must raise.
"""
import copy
import sys

import mongomock

import common
import hist
import histcheck
from histcheck import state_of, freeze

ID = 'C15'
SALT = 1515
RULE = ('history = 2-14 generated operations of which about a third are bulk_write calls of 1-5 '
        'requests (InsertOne, UpdateOne, UpdateMany, ReplaceOne, DeleteOne, DeleteMany, with and '
        'without upsert, ~25% failing requests), ordered and unordered; every step is compared '
        'with the Lean model (result counters / error details, full state); on python each '
        'bulk_write is compared with issuing its requests one at a time on a twin collection '
        '(state, counter sums, upserted ids by operation index, failing index and code, ordered '
        'stop / unordered continue); non-trivial = the bulk mixes >= 3 kinds of request, or '
        'contains a failing request that is not the last; distinct = by hash of the history')
ASSUMPTIONS = [
    'pymongo is absent: the harness supplies plain request objects with _add_to_bulk',
    'TTL-free histories',
    'these histories draw no positional $ paths (the positional operator is modelled '
    'and judged under C02); a step the model '
    'answers unmodelled for cuts the history there',
]

known_labels = {e['id'] for e in common.load_known(ID) if e.get('status') == 'known'}
SINGLE = {'InsertOne': 'insert_one', 'UpdateOne': 'update_one', 'UpdateMany': 'update_many',
          'ReplaceOne': 'replace_one', 'DeleteOne': 'delete_one', 'DeleteMany': 'delete_many'}


def histgen(rng, oids):
    hg = hist.HistGen(rng, oids, weights=dict(
        insert_one=12, insert_many=4, update_one=6, update_many=3, replace_one=3,
        delete_one=3, delete_many=1, find=0, count=0, distinct=0, create_index=4,
        drop_index=0, drop_indexes=1, drop=1, bulk_write=22, bulk_builder=7), ttl=False)
    hg.ug.malformed = 0.12
    return hg


def length(rng):
    return rng.choice([2, 4, 6, 10, 14])


view = histcheck.full_view


def as_single(req):
    k = req[0]
    if k == 'InsertOne':
        return ['insert_one', req[1]]
    if k in ('UpdateOne', 'UpdateMany', 'ReplaceOne'):
        return [SINGLE[k], req[1], req[2], req[3]]
    return [SINGLE[k], req[1]]


def probe(runner, op):
    """bulk-specific API laws, on scratch collections"""
    if op[0] != 'bulk_write':
        return None
    res = {}
    c = mongomock.MongoClient().db.scratch
    try:
        c.bulk_write([], ordered=op[2])
        res['empty'] = 'accepted'
    except Exception as e:  # pylint: disable=broad-except
        res['empty'] = type(e).__name__
    b = c.initialize_ordered_bulk_op()
    b.insert({'x': 1})
    b.execute()
    try:
        b.execute()
        res['twice'] = 'accepted'
    except Exception as e:  # pylint: disable=broad-except
        res['twice'] = type(e).__name__
    return res


def builder_oracle(history, steps, i, st):
    """a builder executed `times` times: the first execute is the bulk (same outcome and state as
    bulk_write with the same requests on a twin), every later one is refused and changes nothing"""
    fails = []
    reqs, ordered, times = st.op[1], st.op[2], st.op[3]
    if st.out[0] != 'val' or not isinstance(st.out[1], list):
        return fails          # a request was refused while the bulk was being built
    outs = st.out[1]
    if len(outs) != times:
        return [(i, 'builder-outcomes', '%d executes gave %d outcomes' % (times, len(outs)))]
    if not reqs:
        for o in outs:
            if (o.get('k'), o.get('v')) != ('err', 'InvalidOperation'):
                fails.append((i, 'empty-bulk', 'executing an empty builder gave %r' % (o,)))
        return fails
    for j, o in enumerate(outs[1:]):
        if (o.get('k'), o.get('v')) != ('err', 'InvalidOperation'):
            fails.append((i, 'execute-twice', 'execute number %d of the same builder gave %r (the '
                          'first one gave %r)' % (j + 2, o, outs[0])))
    twin = histcheck.run_history(history[:i] + [['bulk_write', reqs, ordered]], st.oids)
    t = twin[i]
    first = outs[0]
    if t.out[0] == 'val':
        exp = ('val', t.out[1])
    elif t.out[0] == 'err' and t.out[1] == 'BulkWriteError':
        exp = ('bulkErr', t.out[2])
    else:
        exp = ('err', t.out[1])
    if (first.get('k'), first.get('v')) != exp:
        fails.append((i, 'builder-first', 'the first execute gave %r, bulk_write with the same '
                      'requests gives %r' % (first, exp)))
    if state_of(st.obs) != state_of(t.obs):
        fails.append((i, 'execute-twice-state', 'after %d executes the collection is %r, after one '
                      'bulk_write with the same requests %r' % (times, state_of(st.obs), state_of(t.obs))))
    return fails


def n_docs(obs):
    docs = obs.get('docs') if isinstance(obs, dict) else None
    return len(docs) if isinstance(docs, list) else None


def oracle(history, steps):
    fails = []
    for i, st in enumerate(steps):
        if st.op[0] == 'bulk_builder':
            fails.extend(builder_oracle(history, steps, i, st))
            continue
        if st.op[0] != 'bulk_write':
            continue
        reqs, ordered = st.op[1], st.op[2]
        pr = (st.extra or {}).get('probe') or {}
        if pr.get('empty') != 'InvalidOperation':
            fails.append((i, 'empty-bulk', 'an empty bulk_write gave %r' % (pr.get('empty'),)))
        if pr.get('twice') != 'InvalidOperation':
            fails.append((i, 'execute-twice', 'a second execute gave %r' % (pr.get('twice'),)))
        # the twin: same prefix, then the requests one at a time
        twin_hist = history[:i] + [as_single(r) for r in reqs]
        twin = histcheck.run_history(twin_hist, st.oids)
        seq = twin[i:]
        tot = {'nInserted': 0, 'nMatched': 0, 'nModified': 0, 'nRemoved': 0, 'nUpserted': 0}
        upserted = []
        errors = []
        state = state_of(steps[i - 1].obs) if i else state_of({'docs': [], 'indexes': []})
        aborted = None
        ndocs = n_docs(steps[i - 1].obs) if i else 0
        for j, (r, t) in enumerate(zip(reqs, seq)):
            before, ndocs = ndocs, n_docs(t.obs)
            if t.out[0] == 'err':
                if t.out[1] in ('WriteError', 'DuplicateKeyError'):
                    errors.append((j, 11000 if t.out[1] == 'DuplicateKeyError' else None))
                    state = state_of(t.obs)
                    if ordered:
                        break
                    continue
                aborted = t.out[1]
                state = state_of(t.obs)
                break
            state = state_of(t.obs)
            k = r[0]
            if k == 'InsertOne':
                tot['nInserted'] += 1
            elif k in ('DeleteOne', 'DeleteMany'):
                tot['nRemoved'] += t.out[1]
            else:
                o = t.out[1]
                # an upsert shows as an upserted_id - or, when the upserted document has a null
                # _id (upserted_id None, matched 0), as one more document in the collection
                if o.get('upserted') is not None or (
                        before is not None and ndocs is not None and ndocs > before):
                    tot['nUpserted'] += 1
                    upserted.append((j, freeze(o['upserted'])))
                else:
                    tot['nMatched'] += o['matched']
                tot['nModified'] += o['modified']
        got_state = state_of(st.obs)
        got_state = histcheck.renumber_state(got_state)
        state = histcheck.renumber_state(state)
        if aborted is not None:
            # a non-write error escapes the bulk: only "raised" and the state are comparable
            if st.out[0] != 'err':
                fails.append((i, 'bulk-abort', 'request raises %s alone but the bulk returned %r'
                              % (aborted, st.out)))
            elif got_state != state:
                fails.append((i, 'bulk-state', 'after an aborted bulk the collection is %r, one '
                              'at a time it is %r' % (got_state, state)))
            continue
        if got_state != state:
            fails.append((i, 'bulk-state', 'bulk_write(ordered=%s) left %r, one at a time %r'
                          % (ordered, got_state, state)))
        if errors:
            if st.out[0] != 'err' or st.out[1] != 'BulkWriteError':
                fails.append((i, 'bulk-error', 'expected BulkWriteError for failing positions %r, '
                              'got %r' % (errors, st.out)))
                continue
            det = st.out[2]
            got_err = [(w.get('index'), w.get('code')) for w in det.get('writeErrors', [])]
            if got_err != errors:
                fails.append((i, 'bulk-error-details', 'writeErrors %r, expected %r' % (got_err, errors)))
            res = det
        else:
            if st.out[0] != 'val':
                fails.append((i, 'bulk-error', 'the bulk raised %r but every request succeeds '
                              'alone' % (st.out,)))
                continue
            res = st.out[1]
        for key, val in tot.items():
            if res.get(key) != val:
                fails.append((i, 'bulk-counts', '%s = %r, the individual results sum to %r'
                              % (key, res.get(key), val)))
        got_up = [(u.get('index'), freeze(u.get('_id'))) for u in res.get('upserted', [])]
        # generated ids differ between the two runs: compare positions and the non-generated ids
        if [x for x, _ in got_up] != [x for x, _ in upserted]:
            fails.append((i, 'bulk-upserted-index', 'upserted %r, expected operation indexes %r'
                          % (got_up, [x for x, _ in upserted])))
        if any(l not in known_labels for (_, l, _) in fails) or len(fails) > 50:
            break
    return fails


def nontrivial(history, steps):
    for st in steps:
        if st.op[0] != 'bulk_write':
            continue
        kinds = {r[0] for r in st.op[1]}
        if len(kinds) >= 3:
            return True
        if st.out[0] == 'err' and st.out[1] == 'BulkWriteError':
            idx = [w.get('index') for w in st.out[2].get('writeErrors', [])]
            if idx and idx[0] < len(st.op[1]) - 1:
                return True
    return False


run, replay, replay_finding = histcheck.module_api(sys.modules[__name__], 800, 20000, fixed=True)
