"""C03 — a pipeline is the composition of its stages, each acting as MongoDB defines it.

Correspondence: generated pipelines (1-5 stages, stage grammar of gen_pipeline) over generated
collection contents plus a `$lookup` target collection are run on /repo
(`list(db.c.aggregate(pipeline))`) and on the Lean model `MongoModel.Pipe.runPipeline`; outputs are
compared exactly (document order, field order, error kind; `$group` in the order the code produces).
Where the oracle `Spec.Pipe.specPipelineV` speaks (documents, or "rejected"), python is compared
with it too, inside the domain `Spec.Pipe.pipelineReasonsV = []` that `pipelineV_eq_spec_partial`
is about.

Besides, the property is stated directly on python's observations (no model involved):
`$match` = find(filter), `$sort` = find().sort(), `$skip/$limit` = slices (rejected outside the
rules), `$count` = count_documents (no document over no input), inclusion/exclusion `$project` =
the find projection, `$unwind` = the flat map with its index, a leading `$bucket` = the Lean oracle
`Spec.Pipe.specBucketStage` (driver command c03b; inside `bucketReasons = []` exactly, outside it a
deviation must carry a listed finding or a scope class), `$group` = partition + fold of the
eight accumulators (names refused up front, also over no documents), `$lookup` = join, a
multi-entry `$addFields` = the merge of its entries, constants under dotted names = the deep write
(into every item of an array), a rejected stage = an error, and the prefix law aggregate(p ++ q) = aggregate(q) over a collection
holding aggregate(p)'s output.

The witnesses of the findings that were repaired in the library (known_findings.json, status
"fixed") are run on every check as ordinary cases (`fixed_cases`): judged like any generated case
and, besides, python must answer exactly what MongoDB defines (the witness's `expected`) — the old
behaviour coming back is a VIOLATION.
"""
import collections
import copy
import json
import random
import warnings

import mongomock

import common
import gen_pipeline
import wire

RULE = ('case = one generated pipeline of 1-5 stages ($match $sort $skip $limit $count $project '
        '$group $unwind $lookup $addFields/$set $replaceRoot $bucket $facet, a few unsupported / '
        'malformed ones) over 0-7 generated documents sharing a schema (typed fields present / '
        'null / missing, join key k, category g) and a second collection for $lookup; run '
        'through list(db.c.aggregate(pipeline)) on /repo and through the Lean model; '
        'non-trivial = the pipeline answers a non-empty result that differs from the stored '
        'documents; distinct = by hash of the wire encoding of (collections, pipeline)')

ASSUMPTIONS = [
    'outside F (model answers "unmodelled", counted, not judged): $sample / $out / $graphLookup '
    '(C16), pipelines in which an in-place write of a handler could be observed through a second '
    'reference to the same object — a dotted $unwind (path or includeArrayIndex) after a stage '
    'that can store one sub-document twice (MongoModel.Pipe.aliasRisk, its only clause: every '
    '$facet branch works on its own deep copy of the input, $lookup writes a top-level key of a '
    'document nobody else holds and $addFields / $set copy what they write into since fix '
    'eb8f57c, so none of them adds a risk; the separation property itself is C16) —, a $project '
    'that returns None followed by further stages, sort / group keys that '
    'are arrays or nested documents (bson_compare is not a strict weak order there), comparisons '
    'of library-generated ObjectIds, inexact floats ($avg of thirds), stage operands of an '
    'unexpected Python type where the outcome is an accident of `in` / iteration',
    'the collections hold naive millisecond datetimes and explicit integer _ids; tz_aware=False; '
    'about one pipeline in ten writes its datetimes aware or with microseconds: Collection.aggregate '
    'reads them as UTC milliseconds (fix d1da933), so the driver normalises the pipeline '
    '(MongoModel.Pipe.normPipeline) before the stages of the model AND of the oracle see it — the '
    'oracle speaks about the pipeline as the server is sent it — and the same pipeline with its '
    'datetimes in stored form must answer the same (python only)',
    'error classes are compared between /repo and the model (wire.err_name); against the oracle '
    'only "raised / did not raise"',
    'MongoDB leaves the order of $group output unspecified: python is compared with the model in '
    'the order the code produces (sorted by key); the driver compares python with the seven-stage '
    'oracle Spec.Pipe.specPipelineV only — $group / $lookup / $addFields / $replaceRoot / $facet '
    'are tied to their oracle (Spec/PipelineExt.lean) by theorems about the model '
    '(group_eq_spec_partial, …) and judged on python by the direct partition / fold / join '
    'references of this module; a $bucket stage at the head of a pipeline is run alone and '
    'compared with its Lean oracle Spec.Pipe.specBucketStage itself (driver command c03b): '
    'exactly inside bucketReasons = [] (theorem bucket_eq_spec_partial), outside it a deviation '
    'must carry one of the listed findings bucketcrosstype / bucketboolnum / bucketdefaulttype or '
    'a scope class (bucketexprstrict, keyscope, the accumulator scope classes, expr:*); the '
    'findings on which the oracle is silent because MongoDB refuses the stage (bucketdupbounds, '
    'bucketdefaultinside, bucketgroupbyconst) are replayed from known_findings.json',
    'a pipeline holding a stage MongoDB rejects (not a one-field document; $limit / $skip / $count '
    'argument outside the rules) must raise: judged on python directly and through the oracle\'s '
    'verdict `!Rejected`',
    'the prefix law is checked when the intermediate result can be stored: every document has a '
    'distinct hashable _id and survives an insert / find round trip unchanged',
]

# reasons of Spec.Pipe.stageReasons that are exclusion classes of OTHER properties' oracles
INHERITED = ('filter:', 'sort:', 'proj:')
SCOPE = ('nospec', 'datenorm', 'nondoc')


def new_db(case):
    db = mongomock.MongoClient().db
    for d in case['docs']:
        db.c.insert_one(copy.deepcopy(d))
    for d in case['other']:
        db.other.insert_one(copy.deepcopy(d))
    return db


def agg(coll, pipeline):
    try:
        with warnings.catch_warnings():
            warnings.simplefilter('ignore')
            return list(coll.aggregate(copy.deepcopy(pipeline)))
    except Exception as e:  # pylint: disable=broad-except
        return e


def attempt(fn):
    try:
        with warnings.catch_warnings():
            warnings.simplefilter('ignore')
            return fn()
    except Exception as e:  # pylint: disable=broad-except
        return e


def show(v, oids):
    if isinstance(v, Exception):
        return '!' + wire.err_name(v)
    return wire.encs(v, oids)


def show_safe(v, oids):
    """for replay files: never raises"""
    try:
        return show(v, oids)
    except (RecursionError, wire.Unencodable):
        return '<a value that cannot be rendered: cyclic or outside the wire format>'


def same(a, b):
    """two python outcomes of different entry points agree: both raise (the entry points wrap
    their errors differently), or equal lists (dict == ignores key order, which only the find
    projection changes)"""
    if isinstance(a, Exception) or isinstance(b, Exception):
        return isinstance(a, Exception) and isinstance(b, Exception)
    try:
        return a == b
    except RecursionError:
        return False          # a cyclic document on one side


def case_line(case, oids):
    db = {'c': case['docs'], 'other': case['other']}
    return 'c03 %s %s %s' % (wire.encs(db, oids), wire.encs('c', oids),
                             wire.encs(case['pipeline'], oids))


def render(case, **extra):
    oids = wire.Oids()
    r = {'pipeline': wire.pretty(case['pipeline']),
         'docs': [wire.pretty(d) for d in case['docs']],
         'other': [wire.pretty(d) for d in case['other']],
         'wire_db': wire.encs({'c': case['docs'], 'other': case['other']}, oids),
         'wire_pipeline': wire.encs(case['pipeline'], oids)}
    r.update(extra)
    return r


def case_of_wire(e):
    oids = wire.Oids()
    db = wire.dec(e['wire_db'], oids)
    return {'docs': db.get('c', []), 'other': db.get('other', []),
            'pipeline': wire.dec(e['wire_pipeline'], oids)}


def norm(x):
    if x.startswith('!?') or x.startswith('?'):
        return '?'
    if x.startswith('!'):
        return 'E'
    return x


# -- the property stated directly on python -----------------------------------------------------
def first_stage(case):
    p = case['pipeline']
    if p and isinstance(p[0], dict) and len(p[0]) == 1:
        return list(p[0].items())[0]
    return None, None


def count_ok(o, lo):
    """a `$skip` (lo = 0) / `$limit` (lo = 1) argument MongoDB accepts: an integer, or a double
    without fraction, not below `lo`"""
    if isinstance(o, bool):
        return False
    if isinstance(o, int):
        return o >= lo
    if isinstance(o, float):
        return o.is_integer() and o >= lo
    return False


def mongo_rejects(stage):
    """the stage is refused whatever the documents: not a one-field document, or a `$limit` /
    `$skip` / `$count` argument outside the rules"""
    if not isinstance(stage, dict) or len(stage) != 1:
        return True
    (op, o), = stage.items()
    if op == '$limit':
        return not count_ok(o, 1)
    if op == '$skip':
        return not count_ok(o, 0)
    if op == '$count':
        return not (isinstance(o, str) and o and not o.startswith('$') and '.' not in o)
    return False


def rejected_oracle(ctx, case, full, stats):
    """a pipeline holding a stage MongoDB rejects never answers documents, wherever the stage
    stands (python only)"""
    p = case['pipeline']
    if not isinstance(p, list) or not any(mongo_rejects(st) for st in p):
        return
    stats['rejected stage=error'] += 1
    if not isinstance(full, Exception):
        oids = wire.Oids()
        ctx.violation(render(case, kind='a pipeline holding a stage MongoDB rejects (no or several '
                             'operators, $limit / $skip / $count argument outside the rules) '
                             'answered documents', rejected_stages=[wire.pretty(st) for st in p
                                                                    if mongo_rejects(st)],
                             py=show_safe(full, oids)), rank=60 + len(repr(p)))


KNOWN_DIRECT = {e['id'] for e in common.load_known('C03') if e.get('status') == 'known'}


def ref_unwind(docs, opts):
    """the flat map `$unwind` denotes on a top-level path (one document per element, the index
    written where includeArrayIndex says — null on a value that is no array and on a document
    kept by preserveNullAndEmptyArrays); None when this reference does not want to answer"""
    if isinstance(docs, Exception) or docs is None:
        return None
    if isinstance(opts, str):
        path, pres, idx = opts, False, None
    elif isinstance(opts, dict) and set(opts) <= {'path', 'preserveNullAndEmptyArrays',
                                                   'includeArrayIndex'}:
        path = opts.get('path')
        pres = opts.get('preserveNullAndEmptyArrays')
        idx = opts.get('includeArrayIndex')
        if not isinstance(pres, bool) and pres is not None:
            return None
    else:
        return None
    if not isinstance(path, str) or not path.startswith('$') or len(path) < 2 or '.' in path \
            or path.startswith('$$'):
        return None
    if idx is not None and (not isinstance(idx, str) or not idx or idx.startswith('$')
                            or '..' in idx or idx.startswith('.') or idx.endswith('.')):
        return None
    field = path[1:]
    if idx is not None and (idx == field or idx.startswith(field + '.') or idx.startswith('_id')):
        return None
    def with_index(nd, i):
        # the index is written last; a dotted name creates the sub-documents it goes through and
        # replaces whatever is in its way without being a document
        if idx is None:
            return nd
        cur = nd
        parts = idx.split('.')
        for q in parts[:-1]:
            if not isinstance(cur.get(q), dict):
                cur[q] = {}
            cur = cur[q]
        cur[parts[-1]] = i
        return nd

    out = []
    for d in docs:
        if not isinstance(d, dict):
            return None
        v = d.get(field)
        if v is None or v == []:
            if pres:
                # kept once, without the empty array, with a null index
                nd = copy.deepcopy(d)
                if v == [] and field in nd:
                    del nd[field]
                out.append(with_index(nd, None))
            continue
        if not isinstance(v, list):
            # a value that is no array counts as a one-element array; its index is null
            out.append(with_index(copy.deepcopy(d), None))
            continue
        for i, e in enumerate(v):
            nd = copy.deepcopy(d)
            nd[field] = copy.deepcopy(e)
            out.append(with_index(nd, i))
    return out


def ref_deep_set(value, parts, new):
    """`new` written at the dotted path `parts` below `value`: through a document into (or next
    to) its field, through an array into every item of it, in the place of anything else"""
    if not parts:
        return copy.deepcopy(new)
    if isinstance(value, list):
        return [ref_deep_set(item, parts, new) for item in value]
    out = dict(value) if isinstance(value, dict) else {}
    out[parts[0]] = ref_deep_set(out.get(parts[0]), parts[1:], new)
    return out


def constant_entries(opts):
    """an `$addFields` specification of (possibly dotted) names, none a prefix of another, each
    set to a constant"""
    if not isinstance(opts, dict) or not opts:
        return False
    paths = []
    for k, v in opts.items():
        if not isinstance(k, str) or '$' in k or any(c == '' for c in k.split('.')):
            return False
        if not (v is None or isinstance(v, (int, float, bool)) or
                (isinstance(v, str) and not v.startswith('$'))):
            return False
        paths.append(k.split('.'))
    for i, a in enumerate(paths):
        for b in paths[i + 1:]:
            n = min(len(a), len(b))
            if a[:n] == b[:n]:
                return False
    return True


def plain_flags(spec):
    return (isinstance(spec, dict) and spec and
            all(isinstance(k, str) and '.' not in k and not k.startswith('$') for k in spec) and
            all(isinstance(v, (int, float, bool)) and v in (0, 1) for v in spec.values()))


def direct_oracles(ctx, case, db, stats):
    """agreement of the first stage with the separately coded find path (python only)"""
    op, opts = first_stage(case)
    docs = case['docs']
    if op is None or (not docs and op != '$count'):
        return
    coll = db.c
    got = None
    want = None
    name = None
    if op == '$match' and isinstance(opts, dict):
        name = 'match=find'
        got = agg(coll, [{'$match': opts}])
        want = attempt(lambda: list(coll.find(copy.deepcopy(opts))))
    elif op == '$sort' and isinstance(opts, dict) and opts and \
            all(v in (1, -1) and not isinstance(v, bool) for v in opts.values()) and \
            not any(k.startswith('$') for k in opts):
        name = 'sort=find.sort'
        got = agg(coll, [{'$sort': opts}])
        want = attempt(lambda: list(coll.find().sort(list(opts.items()))))
    elif op in ('$skip', '$limit'):
        # a non-negative ($limit: positive) integer slices like the cursor does; every other
        # argument is rejected
        name = 'skip/limit=slice'
        got = agg(coll, [{op: opts}])
        if isinstance(opts, float) and opts.is_integer():
            opts = int(opts)          # a double that holds a whole number is that integer
        if count_ok(opts, 0 if op == '$skip' else 1):
            allv = list(coll.find())
            want = allv[opts:] if op == '$skip' else allv[:opts]
            if opts > 0:
                via = attempt(lambda: list(coll.find().skip(opts) if op == '$skip'
                                           else coll.find().limit(opts)))
                if not same(via, want):
                    ctx.violation(render(case, kind='cursor skip/limit disagrees with slicing',
                                         stage={op: opts}), rank=50)
        else:
            want = Exception('MongoDB rejects this argument')
    elif op == '$count' and isinstance(opts, str) and opts and not opts.startswith('$') \
            and '.' not in opts:
        name = 'count=count_documents'
        got = agg(coll, [{'$count': opts}])
        # one document holding the number count_documents gives; none over no documents
        n_docs = coll.count_documents({})
        want = [{opts: n_docs}] if n_docs else []
    elif op == '$project' and plain_flags(opts):
        # (an exclusion may keep `_id` explicitly: {field: 0, _id: 1}, as the find projection)
        name = 'project=find projection'
        got = agg(coll, [{'$project': opts}])
        want = attempt(lambda: list(coll.find({}, copy.deepcopy(opts))))
    elif op == '$unwind' and ref_unwind(docs, opts) is not None:
        # one output per array element: an independent copy of the document with the field
        # replaced (and the index written where includeArrayIndex says)
        name = 'unwind=flat map'
        got = agg(coll, [{'$unwind': copy.deepcopy(opts)}])
        want = ref_unwind(attempt(lambda: list(coll.find())), opts)
    elif op in ('$addFields', '$set') and constant_entries(opts) and \
            any('.' in k for k in opts):
        # a dotted name writes below the documents it goes through, into every item of an array
        name = 'addFields=deep write of constants'
        got = agg(coll, [{op: opts}])
        want = []
        for d in attempt(lambda: list(coll.find())):
            for k, v in opts.items():
                d = ref_deep_set(d, k.split('.'), v)
            want.append(d)
    elif op in ('$addFields', '$set') and isinstance(opts, dict) and len(opts) >= 2 and \
            all(isinstance(k, str) and k and '.' not in k and not k.startswith('$') for k in opts):
        # every entry is evaluated against the document that ENTERED the stage: the stage equals
        # the merge of its entries run one at a time on the same input
        name = 'addFields=merge of single entries'
        got = agg(coll, [{op: opts}])
        base = attempt(lambda: list(coll.find()))
        singles = [(k, agg(coll, [{op: {k: copy.deepcopy(v)}}])) for k, v in opts.items()]
        if isinstance(got, Exception) or isinstance(base, Exception) or \
                any(isinstance(r, Exception) for _, r in singles):
            # an entry that raises alone must make the stage raise, and vice versa
            want = got if (isinstance(got, Exception) and
                           any(isinstance(r, Exception) for _, r in singles)) else \
                (Exception('some entry raises alone') if not isinstance(got, Exception) else
                 Exception('the stage raises, no entry does alone'))
            if isinstance(got, Exception) and any(isinstance(r, Exception) for _, r in singles):
                stats[name] += 1
                return
        else:
            want = []
            for j, d in enumerate(base):
                m = copy.deepcopy(d)
                for k, outs in singles:
                    if k in outs[j]:
                        m[k] = copy.deepcopy(outs[j][k])
                    elif k in m:
                        del m[k]
                want.append(m)
    if name is None:
        return
    stats[name] += 1
    if not same(got, want):
        oids = wire.Oids()
        ctx.violation(render(case, kind='the aggregation stage disagrees with the find path: '
                             + name, stage=wire.pretty({op: opts}),
                             aggregate=show_safe(got, oids), find=show_safe(want, oids)),
                      rank=100 + len(repr(opts)) + len(repr(docs)))


def plain_key(v):
    """a scalar on which Python == and MongoDB's equality agree (no bool / number clash)"""
    return v is None or (isinstance(v, (int, float, str)) and not isinstance(v, bool))


def key_class(v):
    return ('n', float(v)) if isinstance(v, (int, float)) else (type(v).__name__, v)


def top_field(path):
    return (isinstance(path, str) and path.startswith('$') and len(path) > 1 and
            '.' not in path[1:] and '$' not in path[1:])


BSON_RANK = {type(None): 1, int: 2, float: 2, str: 3, bool: 6}


def bson_key(v):
    """the BSON order on plain scalars: null < numbers < strings < booleans"""
    r = BSON_RANK[type(v)]
    return (r, 0 if v is None else v)


def acc_scalar(v):
    return v is None or isinstance(v, (int, float, str, bool))


def ref_accumulator(op, present):
    """the accumulator `op` over `present`: the values of the field on the documents of one
    group, in order, MISSING for a document that lacks it; None = this reference does not answer"""
    vals = [v for v in present if v is not MISSING]
    if not all(acc_scalar(v) for v in vals):
        return None
    nums = [v for v in vals if isinstance(v, (int, float)) and not isinstance(v, bool)]
    if op == '$sum':
        return ('v', sum(nums))
    if op == '$avg':
        if any(isinstance(v, float) for v in nums):
            return None
        return ('v', (sum(nums) / float(len(nums))) if nums else None)
    if op in ('$min', '$max'):
        nn = [v for v in vals if v is not None]
        if not nn:
            return ('v', None)
        best = nn[0]
        for v in nn[1:]:
            if (bson_key(v) < bson_key(best)) if op == '$min' else (bson_key(best) < bson_key(v)):
                best = v
        return ('v', best)
    if op == '$first':
        return ('v', None if present[0] is MISSING else present[0])
    if op == '$last':
        return ('v', None if present[-1] is MISSING else present[-1])
    if op == '$push':
        return ('v', vals)
    if op == '$addToSet':
        if any(isinstance(v, bool) for v in vals):
            return None                      # true / 1 are merged: listed finding addtosetboolnum
        out = []
        for v in vals:
            if not any(key_class(v) == key_class(w) for w in out):
                out.append(v)
        return ('v', out)
    return None


MISSING = object()
GROUP_OPS = ('$sum', '$avg', '$min', '$max', '$first', '$last', '$push', '$addToSet')


def same_value(a, b):
    """equal values of the same kind (1 and 1.0 are one number; True is not 1)"""
    if isinstance(a, list) and isinstance(b, list):
        return len(a) == len(b) and all(same_value(x, y) for x, y in zip(a, b))
    if isinstance(a, bool) != isinstance(b, bool):
        return False
    return type(a) in (int, float) and type(b) in (int, float) and a == b or \
        (type(a) == type(b) and a == b)


def group_lookup_oracles(ctx, case, db, stats):
    """$group partitions by key value and folds each part with its accumulators, $lookup attaches
    exactly the matching foreign documents: stated on python with a plain Python partition /
    fold / join as the reference"""
    op, opts = first_stage(case)
    docs = case['docs']
    if not isinstance(opts, dict):
        return
    if op == '$group' and '_id' in opts:
        gid = opts['_id']
        const = gid is None or isinstance(gid, (int, float, bool)) or \
            (isinstance(gid, str) and not gid.startswith('$'))
        if const or top_field(gid):
            keys = [gid if const else d.get(gid[1:]) for d in docs]
            accs = [(name, list(spec.items())[0]) for name, spec in opts.items()
                    if name != '_id' and isinstance(spec, dict) and len(spec) == 1]
            accs = [(name, o, e) for name, (o, e) in accs if o in GROUP_OPS and top_field(e)]
            if all(plain_key(k) or (const and isinstance(k, bool)) for k in keys):
                stats['group=partition+fold'] += 1
                spec = {'_id': gid, 'n__': {'$sum': 1}, 'ids__': {'$push': '$_id'}}
                for name, o, e in accs:
                    spec[name] = {o: e}
                pipeline = [{'$group': spec}]
                got = agg(db.c, pipeline)
                want = collections.OrderedDict()
                for d, k in zip(docs, keys):
                    want.setdefault((type(k) is bool, key_class(k)), []).append(d)
                ok = not isinstance(got, Exception) and len(got) == len(want)
                why = 'number of groups'
                if ok:
                    for g in got:
                        k = g.get('_id', MISSING)
                        part = want.get((type(k) is bool, key_class(k))) \
                            if (plain_key(k) or isinstance(k, bool)) else None
                        if part is None or g.get('ids__') != [d['_id'] for d in part] or \
                                g.get('n__') != len(part):
                            ok, why = False, 'partition'
                            break
                        if const and not same_value(k, gid) and not (k is None and gid is None):
                            ok, why = False, 'the constant _id is not reported as it is'
                            break
                        for name, o, e in accs:
                            r = ref_accumulator(o, [d.get(e[1:], MISSING) for d in part])
                            if r is None:
                                continue
                            stats['group accumulator=fold'] += 1
                            v = g.get(name, MISSING)
                            if v is MISSING or not (same_value(v, r[1]) or
                                                    (v is None and r[1] is None)):
                                ok, why = False, 'accumulator %s of field %s: expected %r' % (
                                    o, name, r[1])
                                break
                        if not ok:
                            break
                if not ok:
                    oids = wire.Oids()
                    ctx.violation(render(dict(case, pipeline=pipeline), kind='$group does not '
                                         'partition its input by key value and fold each part with '
                                         'its accumulators (each group = the documents of that key '
                                         'in input order, counted once; no group over no input; a '
                                         'constant _id reported as it is): ' + why,
                                         got=show_safe(got, oids)), rank=150 + len(repr(docs)))
    if not docs:
        return
    if op == '$lookup' and all(isinstance(opts.get(x), str) for x in
                               ('from', 'localField', 'foreignField', 'as')) and \
            opts['from'] == 'other' and 'let' not in opts and 'pipeline' not in opts:
        lf, ff, name = opts['localField'], opts['foreignField'], opts['as']
        if '.' in lf or '.' in ff or '.' in name or '$' in lf + ff + name:
            return
        foreign = case['other']
        vals = [d.get(lf) for d in docs]
        fvals = [x.get(ff) for x in foreign]
        flat = [y for x in fvals for y in (x if isinstance(x, list) else [x])]
        if not all(plain_key(v) for v in vals) or not all(plain_key(v) for v in flat):
            return
        stats['lookup=join'] += 1
        pipeline = [{'$lookup': {'from': 'other', 'localField': lf, 'foreignField': ff,
                                 'as': name}}]
        got = agg(db.c, pipeline)

        def joins(v, fv):
            if isinstance(fv, list):
                return any(key_class(v) == key_class(y) for y in fv)
            return key_class(v) == key_class(fv)
        want = []
        for d, v in zip(docs, vals):
            e = dict(d)
            e[name] = [x for x, fv in zip(foreign, fvals) if joins(v, fv)]
            want.append(e)
        if isinstance(got, Exception) or got != want:
            oids = wire.Oids()
            ctx.violation(render(dict(case, pipeline=pipeline), kind='$lookup does not attach '
                                 'exactly the foreign documents whose join field equals the local '
                                 'one (all other fields unchanged, one output per input)',
                                 got=show_safe(got, oids), expected=show_safe(want, oids)),
                          rank=150 + len(repr(docs)))


IMPLEMENTED_ACCUMULATORS = ('$sum', '$avg', '$mergeObjects', '$min', '$max', '$first', '$last',
                            '$addToSet', '$push')


def bad_accumulator(stage):
    """a `$group` / `$bucket` stage naming an accumulator the library does not implement (an
    unknown name, which MongoDB rejects when it parses the pipeline, or `$stdDevPop`)"""
    if not isinstance(stage, dict) or len(stage) != 1:
        return False
    (op, o), = stage.items()
    if not isinstance(o, dict):
        return False
    if op == '$group':
        out = {k: v for k, v in o.items() if k != '_id'}
    elif op == '$bucket' and isinstance(o.get('output'), dict) and \
            isinstance(o.get('boundaries'), list) and 'groupBy' in o and \
            set(o) <= {'groupBy', 'boundaries', 'output', 'default'}:
        out = {k: v for k, v in o['output'].items() if k != '_id'}
    else:
        return False
    return any(isinstance(v, dict) and any(a not in IMPLEMENTED_ACCUMULATORS for a in v)
               for v in out.values())


def accname_oracle(ctx, case, db, full, stats):
    """the accumulator names of `$group` / `$bucket` are checked whether or not there is a
    document: a pipeline holding such a stage raises over the collection and over no documents
    alike (python only)"""
    p = case['pipeline']
    if not isinstance(p, list) or not any(bad_accumulator(st) for st in p):
        return
    stats['bad accumulator=error, also on no input'] += 1
    empty = agg(db.nodocs, p)
    if not isinstance(full, Exception) or not isinstance(empty, Exception):
        oids = wire.Oids()
        ctx.violation(render(case, kind='a pipeline whose $group / $bucket names an accumulator that '
                             'is unknown or not implemented answered documents (it must be refused '
                             'whether or not there is a document to group)',
                             py=show_safe(full, oids), over_no_documents=show_safe(empty, oids)),
                      rank=70 + len(repr(p)))


def as_stored_dates(v):
    """the value with every datetime as the server would be sent it: UTC, whole milliseconds —
    what `Collection.aggregate` makes of the datetimes written in a pipeline (written here
    independently of the library's helper)"""
    import datetime as _dt
    if isinstance(v, dict):
        return type(v)((k, as_stored_dates(x)) for k, x in v.items())
    if isinstance(v, (list, tuple)):
        return [as_stored_dates(x) for x in v]
    if isinstance(v, _dt.datetime):
        if v.tzinfo is not None:
            v = v.astimezone(_dt.timezone.utc).replace(tzinfo=None)
        return v.replace(microsecond=v.microsecond // 1000 * 1000)
    return v


def date_form_oracle(ctx, case, db, full, stats):
    """a datetime written in the pipeline is read as the UTC millisecond it denotes: the pipeline
    gives what the same pipeline with its datetimes written in stored form gives (python only)"""
    p = case['pipeline']
    q = as_stored_dates(p)
    if not isinstance(p, list) or wire.pretty(q) == wire.pretty(p):
        return
    stats['pipeline dates=stored form'] += 1
    other = agg(db.c, q)
    same_out = (isinstance(full, Exception) and isinstance(other, Exception)) or (
        not isinstance(full, Exception) and not isinstance(other, Exception) and
        full == other and [list(a) for a in full] == [list(b) for b in other])
    if not same_out:
        oids = wire.Oids()
        ctx.violation(render(case, kind='a datetime written in the pipeline (aware, or with '
                             'microseconds) is not read as the UTC millisecond it denotes: the '
                             'same pipeline with its datetimes in stored form answers something '
                             'else', py=show_safe(full, oids), stored_form=show_safe(other, oids)),
                      rank=120 + len(repr(p)))


def storable(docs):
    ids = []
    for d in docs:
        if not isinstance(d, dict) or '_id' not in d:
            return False
        i = d['_id']
        if isinstance(i, (list, dict)) or i is None:
            return False
        if any(i == j for j in ids):
            return False
        ids.append(i)
    return True


def prefix_law(ctx, case, db, full, rng, stats):
    """aggregate(p ++ q) == aggregate(q) over a collection holding aggregate(p)'s output"""
    p = case['pipeline']
    if len(p) < 2 or isinstance(full, Exception):
        return
    k = rng.randrange(1, len(p))
    mid = agg(db.c, p[:k])
    if isinstance(mid, Exception) or not mid:
        stats['prefix: not storable'] += 1
        return
    if not storable(mid):
        # the output of p cannot be stored (repeated or missing _ids, e.g. after $unwind): feed
        # independent copies of it to the stage machinery itself
        import mongomock.aggregate as _agg
        try:
            with warnings.catch_warnings():
                warnings.simplefilter('ignore')
                # (the stage machinery is entered below `Collection.aggregate`, which is where
                # the datetimes of a pipeline are normalised)
                rest = list(_agg.process_pipeline(copy.deepcopy(mid), db.c.database,
                                                  as_stored_dates(copy.deepcopy(p[k:])), None))
        except Exception as e:  # pylint: disable=broad-except
            rest = e
        stats['prefix law checked (unstored)'] += 1
        if isinstance(rest, Exception) or rest != full or \
                [list(a) for a in rest] != [list(b) for b in full]:
            oids = wire.Oids()
            ctx.violation(render(case, kind='prefix law broken: aggregate(p ++ q) differs from '
                                 'the stages q run on an independent copy of the output of '
                                 'aggregate(p)', split=k, whole=show_safe(full, oids),
                                 staged=show_safe(rest, oids) if not isinstance(rest, Exception)
                                 else repr(rest)),
                          rank=200 + len(repr(p)) + len(repr(case['docs'])))
        return
    try:
        with warnings.catch_warnings():
            warnings.simplefilter('ignore')
            db.tmp.insert_many(copy.deepcopy(mid))
            back = list(db.tmp.find())
        if back != mid or [list(a) for a in back] != [list(b) for b in mid]:
            stats['prefix: not storable'] += 1
            return
    except Exception:  # pylint: disable=broad-except
        stats['prefix: not storable'] += 1
        return
    rest = agg(db.tmp, p[k:])
    stats['prefix law checked'] += 1
    if isinstance(rest, Exception) or rest != full or \
            [list(a) for a in rest] != [list(b) for b in full]:
        oids = wire.Oids()
        ctx.violation(render(case, kind='prefix law broken: aggregate(p ++ q) differs from '
                             'aggregate(q) over the stored output of aggregate(p)', split=k,
                             whole=show_safe(full, oids), staged=show_safe(rest, oids)),
                      rank=200 + len(repr(p)) + len(repr(case['docs'])))


# -- $bucket against the Lean oracle Spec.Pipe.specBucketStage -------------------------------------
# reasons of Spec.Pipe.bucketReasons that are scope limits: nothing is claimed there
BUCKET_SCOPE = ('nospec', 'bucketexprstrict', 'keyscope', 'sumfloat', 'avginexact', 'minmaxscope',
                'setscope', 'datenorm', 'nondoc')


def bucket_case(c):
    """the `$bucket` stage a case starts with, run alone on the case's collection: (driver line,
    python's answer) — None when the case does not start with one"""
    op, opts = first_stage(c)
    if op != '$bucket' or not isinstance(opts, dict):
        return None
    p1 = [c['pipeline'][0]]
    oids = wire.Oids()
    try:
        line = 'c03b %s %s %s' % (wire.encs({'c': c['docs'], 'other': c['other']}, oids),
                                  wire.encs('c', oids), wire.encs(p1, oids))
        return line, show(agg(c['_db'].c, p1), oids), p1
    except (wire.Unencodable, RecursionError):
        return None


def bucket_oracle(ctx, todo, stats):
    """python's `$bucket` = the oracle `specBucketStage` (theorem bucket_eq_spec_partial ties the
    model to it) inside `bucketReasons = []`; outside, a deviation must carry a listed finding
    (bucketcrosstype, bucketboolnum, bucketdefaulttype) or a scope class"""
    if not todo:
        return
    out = wire.run_driver([t[1] for t in todo])
    for (c, _line, py1, p1), o in zip(todo, out):
        parts = [x.strip() for x in o.split('|')]
        spec = parts[0]
        reasons = parts[1].split() if len(parts) > 1 else []
        if spec.startswith('?'):
            stats['bucket: oracle silent'] += 1
            for r in reasons:
                stats['bucket: oracle silent, ' + r] += 1
            continue
        if not reasons:
            stats['bucket=oracle (inside the domain)'] += 1
            if norm(py1) != spec:
                ctx.violation(render(dict(c, pipeline=p1), kind='$bucket does not answer what '
                                     'MongoDB defines (Spec.Pipe.specBucketStage: every document in '
                                     'the bucket b_i <= groupBy < b_i+1, else in default; one '
                                     'document per non-empty bucket in _id order with its '
                                     'accumulators) inside the domain bucketReasons = []',
                                     py=py1, spec=spec), rank=120 + len(repr(c['docs'])))
            continue
        if norm(py1) == spec:
            stats['bucket=oracle (outside the domain, agrees)'] += 1
            continue
        labels = [r for r in reasons if r in KNOWN_DIRECT]
        if labels:
            for r in labels:
                stats['bucket deviates: ' + r] += 1
                ctx.known_seen[r] = ctx.known_seen.get(r, 0) + 1
        elif any(r in BUCKET_SCOPE or r.startswith('expr:') for r in reasons):
            stats['bucket differs under scope classes only'] += 1
            for r in reasons:
                stats['bucket differs under scope class ' + r] += 1
        else:
            ctx.violation(render(dict(c, pipeline=p1), kind='$bucket deviates from what MongoDB '
                                 'defines in an unlisted class', py=py1, spec=spec,
                                 reasons=reasons), rank=130 + len(repr(c['docs'])))


# -- verdicts --------------------------------------------------------------------------------------
class Judge(object):
    def __init__(self, ctx):
        self.ctx = ctx
        self.known = {e['id'] for e in common.load_known('C03') if e.get('status') == 'known'}
        self.zone = collections.Counter()
        self.reasons = collections.Counter()
        self.findings = collections.Counter()
        self.errors = collections.Counter()
        self.internal = []

    def judge(self, case, py, impl, spec, reasons):
        ctx = self.ctx
        if py.startswith('!'):
            self.errors[py[1:]] += 1
        if impl.startswith('!?'):
            self.zone['unmodelled'] += 1
            return
        has_spec = not spec.startswith('?')
        zone = 'D' if (has_spec and not reasons) else ('F-minus-D' if has_spec else 'F (no oracle)')
        self.zone[zone] += 1
        for r in reasons:
            self.reasons[r] += 1
        p, s = norm(py), norm(spec)
        if py == impl:
            if not has_spec or s == p:
                return
            if zone == 'D':
                self.internal.append(render(case, py=py, spec=spec))
                return
            labels = [r for r in reasons if r in self.known or r.startswith(INHERITED)]
            for r in reasons:
                self.findings[r] += 1
            if not labels:
                ctx.violation(render(case, kind='deviation from the stage definitions in an '
                                     'unlisted class', py=py, impl=impl, spec=spec,
                                     reasons=reasons))
            else:
                for r in labels:
                    if r in self.known:
                        ctx.known_seen[r] = ctx.known_seen.get(r, 0) + 1
            return
        if has_spec and s == p:
            ctx.notes.append('model stale but python follows the stage definitions: ' +
                             json.dumps(render(case), default=repr)[:300])
            return
        size = len(repr(case['pipeline'])) + len(repr(case['docs']))
        if has_spec:
            ctx.violation(render(case, kind='pipeline result disagrees with the stage definitions '
                                 '(and with the model of the code)', py=py, impl=impl, spec=spec,
                                 reasons=reasons, zone=zone),
                          rank=(0 if zone == 'D' else 10000) + size)
        else:
            ctx.violation(render(case, kind='correspondence broken: python differs from the model '
                                 'MongoModel.Pipe.runPipeline on this pipeline; the oracle does '
                                 'not speak about it', what_no_longer_checks='correspondence '
                                 'mongomock.aggregate.process_pipeline ~ MongoModel.Pipe.runPipeline',
                                 py=py, impl=impl), no_input=True, rank=20000 + size)


def run_cases(ctx, cases, judge, rng, stats, oracles=True):
    lines = []
    kept = []
    for c in cases:
        oids = wire.Oids()
        try:
            db = new_db(c)
            full = agg(db.c, c['pipeline'])
            c['py'] = show(full, oids)
            line = case_line(c, oids)
        except (wire.Unencodable, RecursionError):
            judge.zone['unencodable'] += 1
            continue
        if oracles:
            rejected_oracle(ctx, c, full, stats)
            date_form_oracle(ctx, c, db, full, stats)
            accname_oracle(ctx, c, db, full, stats)
            for orc in (direct_oracles, group_lookup_oracles):
                try:
                    orc(ctx, c, db, stats)
                except RecursionError:
                    stats['oracle skipped: cyclic value'] += 1
        c['_db'], c['_full'] = db, full
        lines.append(line)
        kept.append(c)
    out = wire.run_driver(lines)
    buckets = []
    for c, o in zip(kept, out):
        parts = [x.strip() for x in o.split('|')]
        impl, spec = parts[0], parts[1]
        reasons = parts[2].split() if len(parts) > 2 else []
        c['impl'], c['spec'], c['reasons'] = impl, spec, reasons
        judge.judge(c, c['py'], impl, spec, reasons)
        if oracles and not impl.startswith('!?'):
            try:
                prefix_law(ctx, c, c['_db'], c['_full'], rng, stats)
            except RecursionError:
                stats['oracle skipped: cyclic value'] += 1
        if oracles:
            b = bucket_case(c)
            if b is not None:
                buckets.append((c, b[0], b[1], b[2]))
        c.pop('_db', None)
        c.pop('_full', None)
    bucket_oracle(ctx, buckets, stats)
    return kept


def fixed_cases():
    """(finding, case) for the findings repaired in the library: their witnesses stay regression
    cases"""
    out = []
    for e in common.load_known('C03'):
        if e.get('status') == 'fixed' and 'wire_pipeline' in e.get('witness', {}):
            out.append((e, case_of_wire(e['witness'])))
    return out


def run_fixed(ctx, judge, rng, stats):
    """the witnesses of the repaired findings through the ordinary judgement; and python must
    answer what MongoDB defines there"""
    fixed = fixed_cases()
    kept = run_cases(ctx, [c for _, c in fixed], judge, rng, stats)
    for e, c in fixed:
        if not any(c is k for k in kept):
            raise RuntimeError('the witness of the repaired finding %s cannot be encoded' % e['id'])
        if norm(c['py']) != e['witness']['expected']:
            ctx.violation(render(c, kind='the repaired finding %s is back: %s'
                                 % (e['id'], e.get('what', '')), py=c['py'],
                                 expected=e['witness']['expected'], impl=c.get('impl'),
                                 spec=c.get('spec')), rank=1)
    return len(fixed)


def corpus_cases():
    import glob
    import os
    out = []
    for p in sorted(glob.glob(os.path.join(common.VERIF, 'corpus', 'C03', '*.json'))):
        out.append(case_of_wire(json.load(open(p))))
    return out


def run(ctx, proof, driver_ok):
    if not driver_ok:
        return {'explanation': 'model driver unavailable; no correspondence run'}
    n = ctx.n(7000, 90000)
    rng = random.Random(ctx.seed * 1000003 + 303)
    judge = Judge(ctx)
    stats = collections.Counter()
    corpus = corpus_cases()
    run_cases(ctx, corpus, judge, rng, stats)
    n_fixed = run_fixed(ctx, judge, rng, stats)
    stage_hist = collections.Counter()
    length_hist = collections.Counter()
    nontrivial = set()
    samples = []
    total = 0
    done = 0
    batch = 1500
    g = gen_pipeline.PipeGen(rng)
    while done < n and not ctx.too_many():
        cases = []
        for k in range(min(batch, n - done)):
            g.anomaly = 0.12 if k % 10 == 9 else 0.015
            g.eg.anomaly = g.anomaly
            g.fg.malformed = g.anomaly
            cases.append(g.simple_case() if k % 10 in (2, 5, 8) else g.case())
        done += len(cases)
        for c in run_cases(ctx, cases, judge, rng, stats):
            total += 1
            for nm in gen_pipeline.stage_names(c['pipeline']):
                stage_hist[nm] += 1
            length_hist[len(c['pipeline'])] += 1
            py = c['py']
            if py.startswith('!') or c['impl'].startswith('!?'):
                continue
            res = wire.dec(py)
            if res and res != c['docs']:
                h = common.case_hash(render(c))
                if h not in nontrivial:
                    nontrivial.add(h)
                    if len(samples) < 4 and len(c['pipeline']) >= 2 and len(res) >= 2:
                        samples.append(dict(render(c), result=wire.pretty(res)))
    if judge.internal:
        raise RuntimeError('python = model but the oracle differs inside D (contradicts the '
                           'theorem pipeline_eq_spec_partial): %r' % judge.internal[:2])
    return {
        'evaluations': total,
        'distinct_nontrivial': len(nontrivial),
        'rule': RULE,
        'samples': samples,
        'cases': total,
        'corpus_cases': len(corpus),
        'repaired_finding_witnesses_run': n_fixed,
        'zones': dict(judge.zone),
        'exclusion_reasons_hit': dict(judge.reasons),
        'deviations_by_reason': dict(judge.findings),
        'python_error_kinds': dict(judge.errors),
        'stage_histogram': dict(stage_hist.most_common()),
        'pipeline_length_histogram': {str(k): v for k, v in sorted(length_hist.items())},
        'direct_oracles_on_python': dict(stats),
    }


def replay(ctx, path):
    e = json.load(open(path))
    case = case_of_wire(e)
    judge = Judge(ctx)
    stats = collections.Counter()
    run_cases(ctx, [case], judge, random.Random(0), stats)
    print(json.dumps({'python': case.get('py'), 'model': case.get('impl'),
                      'oracle': case.get('spec'), 'violations': len(ctx.violations)},
                     default=repr))
    return common.finish(ctx)


def replay_finding(ctx, e):
    """does the listed witness still deviate from MongoDB's definition on the real code?"""
    w = e['witness']
    case = case_of_wire(w)
    db = new_db(case)
    oids = wire.Oids()
    try:
        py = show(agg(db.c, case['pipeline']), oids)
    except (wire.Unencodable, RecursionError):
        return True
    return norm(py) != w['expected']
