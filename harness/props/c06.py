"""C06 — unique indexes hold in every reachable state, across every write path.

Histories over all write entry points against index configurations (single, nested, compound
keys; sparse; partialFilterExpression; created before or after the data) run on the real code
and on the Lean model.  Directly on python, after every step and for every unique index that
index_information() lists, no two covered documents may have equal index keys (a missing field
counts as null, an array contributes each of its elements); creating a unique index over
duplicates must fail and leave no index behind.
"""
import collections
import copy
import itertools
import sys

import common
import hist
import histcheck
import wire
from histcheck import freeze

ID = 'C06'
SALT = 606
RULE = ('history = 3-30 generated operations on one collection with unique indexes (single / '
        'nested / compound keys, sparse, partialFilterExpression from a small grammar) created '
        'before or after the data, also filters that tell ==-equal values apart ({b: {$type: '
        '"double"}}) together with updates that rewrite a value with an ==-equal one of another '
        'type (1 <-> 1.0); indexed fields take values from a tiny pool so that collisions '
        'are frequent; in half of the histories an index may carry every option at once - '
        'expireAfterSeconds (0 s .. 10^6 s, float, numeric and non-numeric strings) on top of '
        'unique / sparse / partial, on any key shape - while the indexed fields also hold dates '
        'around the mocked clock and the clock moves, so that uniqueness is judged under '
        'indexes that are TTL indexes too; '
        'every step is compared with the Lean model (outcome, _id sequence, index '
        'names) and the uniqueness rule is evaluated directly on python\'s documents for every '
        'listed unique index; non-trivial = a write is rejected by an index and a later write '
        'succeeds under the same index; distinct = by hash of the history')
ASSUMPTIONS = [
    'partial filter expressions are drawn from {c: {$exists: true}}, {b: {$gt: 1}}, {a: 1}, '
    '{b: {$type: "double"}} and evaluated in the oracle by a tiny independent evaluator',
    'every step is followed by the harness\'s own read (the rule is judged on what find({}) shows '
    'at the mocked clock, after the expiry pass)',
    'these histories draw no positional $ paths (the positional operator is modelled '
    'and judged under C02); a step the model '
    'answers unmodelled for cuts the history there',
]

known_labels = {e['id'] for e in common.load_known(ID) if e.get('status') == 'known'}
# how often the rule was exercised under an index that carries other options than `unique`
option_stats = collections.Counter()

TYPED = [1, 1.0, 2, 2.0]
# expiry periods a TTL option may carry: short ones (documents do expire while the history
# runs), long ones (nothing expires: the lock / reservation pattern), a float, a numeric string
# and a non-numeric one (the code ignores it: nothing ever expires)
PERIODS = [0, 1, 5, 10, 30, 3600, 10 ** 6, 5.5, '7', 'x']


class Gen06(hist.HistGen):
    """the shared history generator plus what tells ==-equal documents apart: a partial filter
    on the BSON type of `b`, documents whose `b` is 1 / 1.0 / 2 / 2.0 and updates that rewrite
    `b` with such a value (an update 1 -> 1.0 is "not modified" for `_apply_update`, yet moves
    the document into the index: the repaired finding partial-type-sensitive).

    In half of the histories (`combined`) an index may carry EVERY option at once: on top of
    unique / sparse / partialFilterExpression also expireAfterSeconds (the index is then filed
    as a TTL index too), on any of the key shapes; the indexed fields then also hold dates
    around the mocked clock (they collide, and they expire under the short periods) and the
    clock moves.  The uniqueness rule does not depend on what else an index is used for."""

    combined = False

    def date_value(self):
        x = self.r.random()
        if x < 0.85:
            return self.date_near_now()
        return [self.date_near_now(), self.date_near_now()]

    def create_index(self):
        op = super(Gen06, self).create_index()
        if op[2].get('unique') and self.r.random() < 0.3:
            op[2]['partialFilterExpression'] = {'b': {'$type': 'double'}}
        if self.combined and self.r.random() < 0.4:
            op[2]['expireAfterSeconds'] = self.r.choice(PERIODS)
        return op

    def new_doc(self):
        d = super(Gen06, self).new_doc()
        if self.r.random() < 0.3:
            d['b'] = self.r.choice(TYPED)
        if self.combined:
            for f in ('a', 'b'):
                if self.r.random() < 0.2:
                    d[f] = self.date_value()
        return d

    def op(self):
        x = self.r.random()
        if x < 0.1:
            d = self.some_doc()
            f = {'_id': copy.deepcopy(d['_id'])} if d and '_id' in d and self.r.random() < 0.6 \
                else {}
            k = 'update_one' if f or self.r.random() < 0.5 else 'update_many'
            return [k, f, {'$set': {'b': self.r.choice(TYPED)}}, False]
        if self.combined and x < 0.16:
            # a write that moves a document onto a date another document may hold
            d = self.some_doc()
            f = {'_id': copy.deepcopy(d['_id'])} if d and '_id' in d and self.r.random() < 0.7 \
                else {}
            fld = self.r.choice(['a', 'b'])
            if self.r.random() < 0.7:
                return ['update_one', f, {'$set': {fld: self.date_value()}},
                        self.r.random() < 0.3]
            return ['replace_one', f, {fld: self.date_value()}, self.r.random() < 0.3]
        return super(Gen06, self).op()


def histgen(rng, oids):
    combined = rng.random() < 0.5
    hg = Gen06(rng, oids, weights=dict(
        insert_one=22, insert_many=8, update_one=14, update_many=6, replace_one=8,
        delete_one=4, delete_many=1, find=0, count=0, distinct=0, create_index=12,
        drop_index=2, drop_indexes=1, drop=1, clock=5 if combined else 0,
        find_one_and_update=3, find_one_and_replace=2, bulk_write=3), ttl=False)
    hg.combined = combined
    hg.ug.malformed = 0.02
    hg.dollar_values = 0.03
    return hg


def length(rng):
    return rng.choice([3, 6, 10, 16, 22, 30])


def view(op, out, obs):
    ids = histcheck.ids_of(obs)
    idx = tuple(obs.get('indexes') or ()) if isinstance(obs, dict) else None
    if out[0] == 'err':
        o = out if out[1] == 'BulkWriteError' else out[:2]
    else:
        o = ('ok',)
    return (o, ids, idx)


def probe(runner, op):
    info = {}
    for name, ix in runner.coll.index_information().items():
        if ix.get('unique'):
            info[name] = {'key': [k for k, _ in ix['key']], 'sparse': bool(ix.get('sparse')),
                          'pfe': ix.get('partialFilterExpression')}
            if 'expireAfterSeconds' in ix:
                info[name]['ttl'] = ix['expireAfterSeconds']
    return info


# ---- the rule, independently ------------------------------------------------------------------

MISSING = ('<missing>',)


def values_at(doc, parts):
    """values an index key path contributes: arrays contribute each element (multikey)"""
    if not parts:
        if isinstance(doc, list):
            return list(doc) if doc else [None]
        return [doc]
    p = parts[0]
    if isinstance(doc, dict):
        if p in doc:
            return values_at(doc[p], parts[1:])
        return [MISSING]
    if isinstance(doc, list):
        out = []
        if p.isdigit() and int(p) < len(doc):
            out.extend(values_at(doc[int(p)], parts[1:]))
        for x in doc:
            if isinstance(x, dict):
                out.extend(values_at(x, parts))
        return out or [MISSING]
    return [MISSING]


def pfe_holds(pfe, doc):
    if pfe == {'c': {'$exists': True}}:
        return 'c' in doc
    if pfe == {'b': {'$gt': 1}}:
        b = doc.get('b')
        vals = b if isinstance(b, list) else [b]
        return any(isinstance(x, (int, float)) and not isinstance(x, bool) and x > 1 for x in vals)
    if isinstance(pfe, dict) and len(pfe) == 1 and list(pfe.values())[0] == {'$type': 'double'} \
            and '.' not in list(pfe)[0]:
        t = doc.get(list(pfe)[0])
        vals = (t + [t]) if isinstance(t, list) else [t]
        return any(isinstance(x, float) for x in vals)
    if pfe == {'a': 1}:
        a = doc.get('a', None)
        vals = (a + [a]) if isinstance(a, list) else [a]
        return any(same(x, 1) for x in vals)
    return None


def same(a, b):
    """MongoDB value equality: Python == but booleans are not numbers, documents ordered"""
    return freeze_eq(a) == freeze_eq(b)


def freeze_eq(v):
    if isinstance(v, bool):
        return ('bool', v)
    if isinstance(v, (int, float)):
        return ('num', float(v))
    if isinstance(v, dict):
        return ('doc',) + tuple((k, freeze_eq(x)) for k, x in v.items())
    if isinstance(v, list):
        return ('arr',) + tuple(freeze_eq(x) for x in v)
    if v == MISSING or v is None:
        return ('null',)
    return ('v', repr(v))


def covered(ix, doc):
    if ix['pfe'] is not None:
        h = pfe_holds(ix['pfe'], doc)
        if h is None:
            return None
        if not h:
            return False
    if ix['sparse']:
        present = [values_at(doc, k.split('.')) != [MISSING] for k in ix['key']]
        if not any(present):
            return False
    return True


def keys_of(ix, doc):
    per_field = [values_at(doc, k.split('.')) for k in ix['key']]
    return {tuple(freeze_eq(x) for x in combo) for combo in itertools.product(*per_field)}


def classify(ix, d1, d2):
    """which known class (if any) explains an accepted duplicate"""
    per1 = [values_at(d1, k.split('.')) for k in ix['key']]
    per2 = [values_at(d2, k.split('.')) for k in ix['key']]
    flat = list(itertools.chain(*per1, *per2))
    if any(isinstance(v, list) for k in ix['key'] for v in [get_raw(d1, k), get_raw(d2, k)]):
        return 'multikey'
    if ix['sparse'] and any(v is None for v in flat):
        return 'sparse-null'
    # (repaired in the library, known_findings.json has them as "fixed": named only when no class
    # that is still known explains the duplicate, so that their return is reported - neither is
    # a known label)
    if any(has_dollar_key(get_raw(d, k)) for k in ix['key'] for d in (d1, d2)):
        return 'operator-like-value'
    if any(dead_end(d, k) for k in ix['key'] for d in (d1, d2)):
        return 'deadend-null'
    return 'unique-violated'


SINGLE_STATEMENT_UPDATES = ('update_one', 'update_many', 'replace_one', 'find_one_and_update',
                            'find_one_and_replace')


def update_specs(op):
    k = op[0]
    if k in ('update_one', 'update_many', 'find_one_and_update'):
        return [op[2]]
    if k == 'bulk_write':
        return [q[2] for q in op[1] if q[0] in ('UpdateOne', 'UpdateMany')]
    return []


def classify_refused(st, prev_docs, otherwise):
    """which known class (if any) explains a collection that find({}) can no longer read, or a
    document left behind by a refused update: a
    failed update whose path reaches at least two levels into an `_id` that is an embedded
    document holding another document there (the store key shares that inner document with the
    stored one; the update changes it in place before it is refused)"""
    if st.out[0] == 'err':
        for spec in update_specs(st.op):
            if not isinstance(spec, dict):
                continue
            for name, body in spec.items():
                if not (str(name).startswith('$') and isinstance(body, dict)):
                    continue
                for path in body:
                    parts = str(path).split('.')
                    if len(parts) >= 3 and parts[0] == '_id' and any(
                            isinstance(d, dict) and isinstance(d.get('_id'), dict) and
                            isinstance(d['_id'].get(parts[1]), dict) for d in prev_docs):
                        return 'nested-id-failed-update'
    return otherwise


def has_dollar_key(v):
    """an embedded document with a $-prefixed key (before library commit 9ef8b46 the uniqueness
    look-up read it as a query operator instead of as data)"""
    if isinstance(v, dict):
        return any(str(k).startswith('$') or has_dollar_key(x) for k, x in v.items())
    if isinstance(v, list):
        return any(has_dollar_key(x) for x in v)
    return False


def dead_end(doc, key):
    """the key path runs into a scalar (or null) before its last component"""
    cur = doc
    parts = key.split('.')
    for j, p in enumerate(parts):
        if isinstance(cur, dict):
            if p not in cur:
                return False
            cur = cur[p]
        elif isinstance(cur, list):
            return False
        else:
            return True
    return False


def get_raw(doc, key):
    cur = doc
    for p in key.split('.'):
        if isinstance(cur, dict) and p in cur:
            cur = cur[p]
        elif isinstance(cur, list) and p.isdigit() and int(p) < len(cur):
            cur = cur[int(p)]
        elif isinstance(cur, list):
            return cur          # traversal through an array
        else:
            return MISSING
    return cur


def oracle(history, steps):
    fails = []
    for i, st in enumerate(steps):
        docs = st.obs.get('docs') if isinstance(st.obs, dict) else None
        prev = steps[i - 1].obs.get('docs') if i else []
        prev = prev if isinstance(prev, list) else []
        if not isinstance(docs, list):
            # a collection that can no longer be read is in no state the rule could hold in
            fails.append((i, classify_refused(st, prev, 'observation'),
                          'find({}) raised %r after %r -> %r' % (docs, st.op, st.out)))
            break
        # a refused single-statement update / replace leaves no document behind that was not
        # there before (neither a half-made upsert nor a second copy of the one it worked on)
        if st.out[0] == 'err' and st.op[0] in SINGLE_STATEMENT_UPDATES:
            before = collections.Counter(freeze(d.get('_id', MISSING)) for d in prev)
            after = collections.Counter(freeze(d.get('_id', MISSING)) for d in docs)
            added = after - before
            if added:
                label = classify_refused(st, prev, 'refused-update-added-document')
                fails.append((i, label, '%r was refused (%r) but left document(s) with _id %r '
                              'behind: before %r, after %r' % (st.op, st.out, list(added), prev,
                                                               docs)))
                if label == 'nested-id-failed-update':
                    break       # the store is damaged from here on: nothing more to judge
        info = (st.extra or {}).get('probe') or {}
        listed = list(st.obs.get('indexes') or [])
        # creation over duplicates must fail and leave nothing behind
        if st.op[0] == 'create_index' and st.out[0] == 'err':
            name = st.op[2].get('name') or '_'.join('%s_%s' % (k, d) for k, d in st.op[1])
            prev_listed = list(steps[i - 1].obs.get('indexes') or []) if i else []
            if name in listed and name not in prev_listed:
                fails.append((i, 'failed-create-left-index', 'create_index raised %r but %s is '
                              'listed' % (st.out, name)))
        for name, ix in info.items():
            cov = []
            for d in docs:
                c = covered(ix, d)
                if c is None:
                    cov = None
                    break
                if c:
                    cov.append(d)
            if cov is None:
                continue
            seen = []
            for d in cov:
                ks = keys_of(ix, d)
                for (e, ke) in seen:
                    if ks & ke:
                        fails.append((i, classify(ix, e, d), 'unique index %s %r holds %r and %r'
                                      % (name, ix, e, d)))
                        break
                seen.append((d, ks))
            if any(l not in known_labels for (_, l, _) in fails) or len(fails) > 50:
                break
        if any(l not in known_labels for (_, l, _) in fails) or len(fails) > 50:
            break
    return fails


def nontrivial(history, steps):
    rejected = False
    for st in steps:
        info = (st.extra or {}).get('probe') or {}
        if any('ttl' in ix for ix in info.values()):
            option_stats['steps_under_a_unique_index_that_is_ttl_too'] += 1
            if st.out[0] == 'err' and st.out[1] in ('DuplicateKeyError', 'BulkWriteError') and \
                    st.op[0] != 'create_index':
                option_stats['writes_rejected_while_a_unique_ttl_index_is_listed'] += 1
        if st.out[0] == 'err' and st.out[1] in ('DuplicateKeyError', 'BulkWriteError') and \
                st.op[0] != 'create_index' and (st.extra or {}).get('probe'):
            rejected = True
        elif rejected and st.out[0] != 'err' and st.op[0] in (
                'insert_one', 'update_one', 'replace_one', 'update_many', 'insert_many',
                'find_one_and_update', 'find_one_and_replace', 'bulk_write'):
            return True
    return False


_run, replay, replay_finding = histcheck.module_api(sys.modules[__name__], 1000, 25000)


def run(ctx, proof, driver_ok):
    """the generated histories, and before them the witnesses of the findings repaired in the
    library: each goes through the oracle and the correspondence, a recurrence is a VIOLATION"""
    if not driver_ok:
        return _run(ctx, proof, driver_ok)
    eng = histcheck.Engine(ctx, sys.modules[__name__])
    replayed = histcheck.replay_fixed(eng, sys.modules[__name__])
    cov = eng.run(ctx.n(1000, 25000))
    cov['fixed_witnesses_replayed'] = replayed
    cov['multi_option_indexes'] = dict(option_stats)
    return cov
