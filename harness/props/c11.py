"""C11 — natural order, sort, skip and limit return the right documents in the right order.

Correspondence: the real `Collection.find(...).sort/skip/limit/[slice]`, `find(sort=, skip=,
limit=)`, `count_documents(filter, skip=, limit=)`, `aggregate([$sort/$skip/$limit])` and write
histories (insert / update / replace / delete) against the Lean model `MongoModel/Sort.lean`
(Impl) and the oracle `Spec/Order.lean`, with the domain reasons computed by the same Lean
definitions (`Spec/OrderDomain.lean`) the theorems of `Props/C11.lean` are about.  In addition
the property is checked directly on Python's output with an independent Python oracle (one stable
sort by the lexicographic BSON order of the key tuples, then a contiguous slice) and by
comparing the entry points with one another.

Natural order must not depend on the FILTER: the cases query through every shape of filter (empty,
conditions on other fields, ranges over _id, and filters that pin _id — `{'_id': x}`,
`{'_id': {'$in': [...]}}` with the list in any order, with duplicates and absent values, alone or
next to other conditions, under $and / $or / $nin).  Which documents a filter matches is taken
from the real code as a SET (that is C01's business; the model's own `filterApplies` answers it on
the Lean side); the ORDER the oracles build on is the order of insertion (`selected_docs`), and
an unsorted find under the filter, find_one, a leading $match and filtered reads after a write
history are judged against it directly.

The model's value universe has no binary data, uuid, regular expression or non-finite double.
Sort keys of EVERY kind of value `bson_compare` orders (those included, and embedded documents
and arrays of them) are checked by a python-only oracle: the same call sequences over collections
drawn by `WG`, judged against the reference implementation of the BSON comparison order in
harness/c11_order.py (`run_wide`); the scenarios the wire can carry go through the model too.
"""
import collections
import copy
import datetime as _dt
import functools
import json
import random
import re as _re
import uuid as _uuid

import mongomock
from mongomock import ObjectId

import c11_order
import common
import wire
from c11_order import Outside

RULE = ('case = one call sequence (find with sort/skip/limit arguments followed by 0-4 cursor '
        'method calls or slices and a full iteration or an index; or count_documents with '
        'skip/limit; or an aggregate of $sort/$skip/$limit stages; or a write history followed '
        'by find() and by a read through a filter on _id) over a collection of 0-8 documents '
        'with mixed BSON types and missing values under 1-3 sort keys, queried through an empty '
        'filter, conditions on other fields, ranges over _id, or a filter that pins _id to listed '
        'values ($in lists in any order with duplicates and absent values, alone / next to other '
        'conditions / under $and, $or, $nin); compared by _id sequence against the stable sort '
        'and slice of the matching documents TAKEN IN INSERTION ORDER; non-trivial = the case sorts, at least '
        'two selected documents tie under the first sort key and the first key sees at least two '
        'BSON type classes (for histories: at least one rewrite or delete of a document that is '
        'not the last); distinct = by hash of the wire line of the case; '
        'every_kind_order_oracle: the same call sequences over collections of 2-8 documents whose '
        'sort keys are drawn from every kind of value bson_compare orders (null, numbers incl. '
        'non-finite and beyond 2^53, strings, embedded documents, arrays, binary data, uuid, '
        'ObjectId, booleans, dates, regular expressions), compared by _id sequence with the '
        'reference BSON order of harness/c11_order.py; many_ties_collections: the same kinds of '
        'case over collections of 8-40 documents with 1-4 distinct values per field (most '
        'documents tie under the first key), with the leading window of every small size taken '
        'right after the sort through $sort + $limit, sort().limit() and slices, windows '
        'anywhere, and pipelines of several sorts and cuts')

ASSUMPTIONS = [
    'outside F (model answers "unmodelled"): sort keys reaching values nested deeper than a flat '
    'embedded document, sorts in which some but not all key comparisons raise (which of them '
    'timsort performs is not modelled), paths with empty components or negative indexes',
    'scope limits (inside F, nothing claimed, python compared with the model only): sort keys '
    'reaching embedded documents or arrays inside arrays, negative skip, '
    '`$`-prefixed sort keys '
    'other than a lone $natural, count_documents limits that are not positive numbers',
    'ObjectIds under a sort key are ids the case supplies (wire.Oids: number n has value n, so '
    'they are ordered like their numbers); the value of an ObjectId the library generates is not '
    'modelled, so neither is its place in a sort (model answers "unmodelled")',
    'a cursor is configured completely before its first iteration (reconfiguration after '
    'iteration started is not modelled); rewind() and clone() are checked directly',
    'error classes are not compared for C11 (only raised / did not raise)',
    'binary data, uuid, regular expressions and non-finite doubles are outside the model\'s value '
    'universe: sort keys of those kinds (and documents / arrays holding them) are judged by the '
    'python-only reference order harness/c11_order.py, written from MongoDB\'s documented '
    'comparison/sort order (binary data: length, subtype, bytes; bytes are subtype 0, uuid.UUID '
    'subtype 4; regular expressions: pattern, then options; NaN below every number); no theorem '
    'rests on it.  Decimal128, Timestamp, MinKey/MaxKey, DBRef need the bson package, which is '
    'not installed',
]

# emptyslice, objectid and arraykey were repaired in the library; what is listed now are deviations
# from the BSON order among kinds of values outside the model's universe (found by the every-kind
# order oracle, classified by harness/c11_order.py `flags_of`)
FINDING_CLASSES = set(c11_order.FINDING_TEXT)
SCOPE_CLASSES = {'dockey', 'awaredate', 'badpath', 'dollarkey', 'negskip', 'badlimit',
                 'genoid', 'nestedarray'}

DATES = [_dt.datetime(2020, 1, 1), _dt.datetime(1969, 12, 31, 23, 59, 59, 999000)]
D_ALPHABET = [None, None, True, False, 0, 1, 2, -1, 0.5, 1.0, 2.0, '', 'a', 'b', 'B',
              DATES[0], DATES[1]]
FIELDS = ['a', 'b', 'c']


# ------------------------------------------------------------------------------------------
# generators

class G(object):
    SIZES = [0, 1, 2, 3, 3, 4, 4, 5, 5, 6, 7, 8]        # number of documents
    ALPHA_SIZES = [1, 2, 2, 3, 3, 4, 5]                 # distinct values drawn per field

    def __init__(self, rng):
        self.r = rng
        self.oids = wire.Oids()

    def f_value(self):
        """arrays (inside D when their items are), ObjectIds, and values outside D: embedded
        documents, nested arrays"""
        r = self.r
        x = r.random()
        if x < 0.45:
            n = r.choice([0, 1, 2, 2, 3])
            return [r.choice([0, 1, 2, 5, 'a', None, 1.5]) for _ in range(n)]
        if x < 0.65:
            return self.oids.make(r.randrange(3))
        if x < 0.85:
            return {'x': r.choice([0, 1, 2, 'a', None])}
        if x < 0.93:
            return [{'x': r.choice([0, 1, 2])} for _ in range(r.choice([1, 2]))]
        return {'x': r.choice([[1], {'y': 1}, [True], 1])}

    def docs(self):
        r = self.r
        n = r.choice(self.SIZES)
        profile = 'D' if r.random() < 0.72 else 'F'
        alpha = {}
        for f in FIELDS:
            k = r.choice(self.ALPHA_SIZES)
            vals = [copy.deepcopy(r.choice(D_ALPHABET)) for _ in range(k)]
            if r.random() < 0.2:
                # supplied ObjectIds are inside D: ordered by value, between arrays and booleans
                for _ in range(r.choice([1, 2, 2])):
                    vals.append(self.oids.make(r.randrange(3)))
            if profile == 'F' and r.random() < 0.7:
                for _ in range(r.choice([1, 2])):
                    vals.append(self.f_value())
            alpha[f] = vals
        pmiss = r.choice([0.0, 0.15, 0.3])
        ids = self.draw_ids(n)
        out = []
        for i in range(n):
            d = {'_id': ids[i]}
            for f in FIELDS:
                if r.random() >= pmiss:
                    d[f] = copy.deepcopy(r.choice(alpha[f]))
            out.append(d)
        return out, profile

    def draw_ids(self, n):
        """_ids in the order of insertion: 0..n-1, or numbers / strings / supplied ObjectIds in an
        order that is not the order of their values"""
        r = self.r
        x = r.random()
        if x < 0.78:
            return list(range(n))
        pool = [0, 1, 2, 3, 4, 5, 6, 7, 8, 9, 'a', 'b', 1.5]
        if x < 0.9:
            return r.sample(pool, n)
        return r.sample(pool + [self.oids.make(20 + i) for i in range(6)], n)

    def sort_spec(self, profile, allow_none=True):
        r = self.r
        x = r.random()
        if allow_none and x < 0.08:
            return None
        if x < 0.11:
            return []
        if x < 0.16:
            return [['$natural', r.choice([1, -1])]]
        if x < 0.18:
            return [[r.choice(['$natural', '$foo']), r.choice([1, -1])], ['a', 1]]
        k = r.choice([1, 1, 2, 2, 3])
        keys = FIELDS + (['a.x', 'b.x', 'a.0', '_id'] if profile == 'F' else ['a.x', '_id'])
        w = [5, 5, 5] + [1] * (len(keys) - 3)
        out = []
        for _ in range(k):
            out.append([r.choices(keys, w)[0], r.choice([1, 1, -1, -1, 2, -3])])
        return out

    def num(self, n, neg=0.0):
        r = self.r
        if r.random() < neg:
            return -r.randint(1, n + 2)
        return r.randint(0, n + 2)

    def cursor_op(self, n, profile):
        r = self.r
        x = r.random()
        if x < 0.22:
            return ['skip', self.num(n, 0.04)]
        if x < 0.46:
            return ['limit', self.num(n, 0.3)]
        if x < 0.58:
            return ['sortk', r.choice(FIELDS), r.choice([None, None, 1, -1, 0])]
        if x < 0.68:
            s = self.sort_spec(profile, allow_none=False)
            return ['sortl', s]
        if x < 0.92:
            a = r.choice([None, self.num(n, 0.04)])
            b = r.choice([None, self.num(n, 0.04)])
            if a is not None and b is not None and r.random() < 0.6 and b < a:
                a, b = b, a
            return ['slice', a, b]
        return [r.choice(['clone', 'rewind'])]

    def filter(self, docs=()):
        """natural order does not depend on the filter: every shape of filter is drawn — empty,
        conditions on other fields, ranges over _id, and filters that pin _id to listed values
        (`id_filter`)"""
        r = self.r
        x = r.random()
        if x < 0.5:
            return {}
        if x < 0.56:
            return {'a': {'$exists': True}}
        if x < 0.62:
            return {'_id': {'$gte': 1}}
        if x < 0.68:
            return {'b': r.choice([None, 1, 'a'])}
        return self.id_filter(docs)

    def other_cond(self):
        r = self.r
        return r.choice([('a', {'$exists': True}), ('b', {'$exists': True}),
                         ('c', {'$ne': 'no-such-value'}), ('b', {'$nin': []}),
                         ('a', {'$exists': False}), ('b', r.choice([None, 1, 'a']))])

    def id_values(self, docs):
        """values for a filter on _id: ids of the collection in ANY order (not the order of
        insertion), some of them repeated, next to values no document has and to the same number
        written as a double"""
        r = self.r
        ids = [d['_id'] for d in docs]
        absent = [99, 'zz', None, -7, self.oids.make(7)]
        k = r.choice([1, 2, 2, 3, 3, 4, 5, 6])
        vals = r.sample(ids, min(k, len(ids)))
        if vals and r.random() < 0.35:
            vals += [r.choice(vals) for _ in range(r.choice([1, 1, 2]))]       # duplicates
        if r.random() < 0.35:
            vals += [r.choice(absent) for _ in range(r.choice([1, 2]))]
        if r.random() < 0.2:
            vals = [float(v) if type(v) is int and r.random() < 0.5 else v for v in vals]
        x = r.random()
        if x < 0.6:
            r.shuffle(vals)
        elif x < 0.8:
            vals.sort(key=lambda v: -ids.index(v) if v in ids else 1)          # reverse order
        return copy.deepcopy(vals)

    def id_filter(self, docs):
        """filters that pin _id: {'_id': x}, {'_id': {'$in': [...]}} (the list in any order, with
        duplicates and absent values), alone, next to other conditions (before / after the _id
        key), with further operators on _id, under $and, as $or of _id equalities, negated"""
        r = self.r
        vals = self.id_values(docs)
        one = vals[0] if vals else 0
        x = r.random()
        if x < 0.08:
            return {'_id': one}
        if x < 0.12:
            return {'_id': {'$eq': one}}
        if x < 0.42:
            return {'_id': {'$in': vals}}
        if x < 0.58:
            k, c = self.other_cond()
            if r.random() < 0.5:
                return {'_id': {'$in': vals}, k: c}
            return {k: c, '_id': {'$in': vals}}
        if x < 0.66:
            extra = r.choice([('$ne', 99), ('$nin', [one]), ('$exists', True), ('$gte', 0)])
            f = {'$in': vals, extra[0]: extra[1]}
            if r.random() < 0.5:
                f = dict(reversed(list(f.items())))
            return {'_id': f}
        if x < 0.8:
            alts = [{'_id': v} for v in vals] or [{'_id': 0}]
            if r.random() < 0.3:
                k, c = self.other_cond()
                alts.insert(r.randrange(len(alts) + 1), {k: c, '_id': {'$in': list(vals)}})
            return {'$or': alts}
        if x < 0.88:
            k, c = self.other_cond()
            return {'$and': [{'_id': {'$in': vals}}, {k: c}]}
        if x < 0.94:
            return {'_id': {'$nin': vals}}
        return {'_id': {'$in': vals}, '$or': [{'_id': v} for v in reversed(vals)] or [{}]}


# every kind of value bson_compare orders (mongomock/filtering.py `_get_compare_type`): the kinds
# of the model's universe and those outside it (binary data, uuid, regular expressions,
# non-finite doubles)
W_KINDS = ['null', 'number', 'string', 'document', 'array', 'binary', 'uuid', 'objectid',
           'boolean', 'date', 'regex']
W_SCALARS = {
    'null': [None],
    'number': [0, 1, -1, 2, 0.5, 1.0, -0.0, 1.5, 2 ** 53, 2 ** 53 + 1, float(2 ** 53),
               -2 ** 63, 2 ** 63 - 1, 1e300, float('inf'), float('-inf')],
    'string': ['', 'a', 'b', 'B', 'ab', 'aa', 'a\x00', '\xe9', 'z', '\uffff', '\U00010000',
               '10', '9'],
    'binary': [b'', b'a', b'b', b'zz', b'abc', b'ab', b'\x00', b'\xff', b'a\x00', b'\x00\x00',
               b'\x7f', b'\x80', b'0123456789abcdef', bytes(16), b'\xff' * 16],
    'uuid': [_uuid.UUID(int=0), _uuid.UUID(int=1), _uuid.UUID(int=255), _uuid.UUID(int=256),
             _uuid.UUID(int=2 ** 64), _uuid.UUID(int=2 ** 127), _uuid.UUID(int=2 ** 128 - 1)],
    'objectid': [0, 1, 2, 255, 256, 999],          # numbers of wire.Oids
    'boolean': [True, False],
    'date': DATES + [_dt.datetime(1970, 1, 1), _dt.datetime(1, 1, 1),
                     _dt.datetime(9999, 12, 31, 23, 59, 59, 999000),
                     _dt.datetime(2020, 1, 1, 0, 0, 0, 1000)],
    'regex': [('a', 0), ('b', 0), ('ab', 0), ('', 0), ('a', _re.I), ('a', _re.M),
              ('a', _re.I | _re.M), ('^a', 0), ('B', _re.S)],
}
NAN = float('nan')


class WG(G):
    """collections whose sort keys are drawn from EVERY kind of value the comparison knows
    (profile 'W'): per field either one kind (the rule inside the kind decides), two kinds, or
    all of them; arrays and embedded documents hold items of every kind as well"""
    SIZES = [2, 3, 3, 4, 4, 5, 5, 6, 7, 8]
    ALPHA_SIZES = [2, 3, 3, 4, 5, 6]

    def w_scalar(self, kind):
        r = self.r
        if kind == 'number' and r.random() < 0.03:
            return NAN
        v = r.choice(W_SCALARS[kind])
        if kind == 'objectid':
            return self.oids.make(v)
        if kind == 'regex':
            return _re.compile(v[0], v[1])
        return v

    def w_value(self, kinds, depth=0):
        r = self.r
        kind = r.choice(kinds)
        if kind in ('array', 'document') and depth >= 2:
            kind = r.choice(['number', 'string', 'binary', 'boolean', 'null'])
        if kind == 'array':
            inner = self.w_kinds(scalar_only=depth >= 1 and r.random() < 0.7)
            return [self.w_value(inner, depth + 1) for _ in range(r.choice([0, 1, 2, 2, 3]))]
        if kind == 'document':
            inner = self.w_kinds(scalar_only=r.random() < 0.7)
            names = r.sample(['x', 'y', 'z'], r.choice([0, 1, 1, 2, 2]))
            if 'x' not in names and names and r.random() < 0.5:
                names[0] = 'x'
            return {k: self.w_value(inner, depth + 1) for k in names}
        return self.w_scalar(kind)

    def w_kinds(self, scalar_only=False):
        r = self.r
        pool = [k for k in W_KINDS if not (scalar_only and k in ('array', 'document'))]
        x = r.random()
        if x < 0.45:
            # (two regular expressions under one key are a listed deviation: no field of those)
            return [r.choice([k for k in pool if k != 'regex'])]
        if x < 0.65:
            return r.sample(pool, 2)
        return pool

    def docs(self):
        r = self.r
        n = r.choice(self.SIZES)
        alpha = {}
        for f in FIELDS:
            kinds = self.w_kinds()
            alpha[f] = [self.w_value(kinds) for _ in range(r.choice(self.ALPHA_SIZES))]
        pmiss = r.choice([0.0, 0.1, 0.25])
        ids = self.draw_ids(n)
        out = []
        for i in range(n):
            d = {'_id': ids[i]}
            for f in FIELDS:
                if r.random() >= pmiss:
                    d[f] = copy.deepcopy(r.choice(alpha[f]))
            out.append(d)
        return out, 'W'


def dedup_keys(spec):
    """a `$sort` document cannot repeat a key"""
    seen, out = set(), []
    for k, d in spec:
        if k not in seen:
            seen.add(k)
            out.append([k, d])
    return out


def gen_scenario(rng, gcls=None):
    g = (gcls or G)(rng)
    docs, profile = g.docs()
    n = len(docs)
    filt = g.filter(docs)
    cases = []
    # a consistent family: the same settings through every entry point
    spec = g.sort_spec(profile)
    s = g.num(n)
    l = rng.randint(1, n + 2)
    plain = spec if spec else None
    cases.append(('find', filt, spec, s, l, [], None))
    if plain and not any(k.startswith('$') for k, _ in plain):
        cases.append(('find', filt, None, 0, 0, [['sortl', plain], ['skip', s], ['limit', l]], None))
        cases.append(('find', filt, None, 0, 0, [['sortl', plain], ['limit', -l], ['skip', s]], None))
        cases.append(('find', filt, plain, 0, 0, [['slice', s, s + l]], None))
        if filt == {}:
            if dedup_keys(plain) == plain:
                cases.append(('agg', [['sort', plain], ['skip', s], ['limit', l]]))
    cases.append(('count', filt, s, l))
    # random call sequences (under the scenario's filter, or under one that pins _id)
    filt2 = filt if rng.random() < 0.6 else g.id_filter(docs)
    for _ in range(rng.choice([2, 3, 4])):
        spec2 = g.sort_spec(profile)
        ops = [g.cursor_op(n, profile) for _ in range(rng.choice([0, 1, 1, 2, 3, 4]))]
        final = None if rng.random() < 0.85 else g.num(n, 0.1)
        cases.append(('find', rng.choice([filt, filt2]), spec2, g.num(n, 0.03), g.num(n, 0.25),
                      ops, final))
    # empty slices and boundaries
    if rng.random() < 0.3:
        a = g.num(n)
        cases.append(('find', filt, g.sort_spec(profile), 0, 0, [['slice', a, a]], None))
    if rng.random() < 0.5:
        cases.append(('count', filt, g.num(n, 0.05),
                      rng.choice([None, None, g.num(n, 0.15), 'x'])))
    if rng.random() < 0.5:
        st = []
        for _ in range(rng.choice([1, 2, 3, 4])):
            x = rng.random()
            if x < 0.4:
                sp = g.sort_spec(profile, allow_none=False)
                if sp and not any(k.startswith('$') for k, _ in sp):
                    st.append(['sort', dedup_keys(sp)])
            elif x < 0.7:
                st.append(['skip', g.num(n, 0.05)])
            else:
                st.append(['limit', max(1, g.num(n, 0.0)) if rng.random() < 0.9 else g.num(n, 0.5)])
            if st and st[-1][0] != 'sort' and rng.random() < 0.15:
                st[-1][1] = float(st[-1][1])      # a double that holds a whole number
        if st:
            cases.append(('agg', st))
    return {'docs': docs, 'oids': g.oids, 'profile': profile, 'cases': cases}


# ------------------------------------------------------------------------------------------
# larger collections in which MANY documents tie under the sort keys.  The rules speak of any
# number of documents: "documents that tie keep their natural order" and "skip / limit take a
# contiguous window of the sorted sequence" must hold when the window is a small part of a long
# sequence full of ties (where an implementation may take another road than one full sort:
# top-k selection, partial sorts, early cuts), for the $sort stage and for the cursor alike.

class ManyTies(object):
    """mixin over G / WG: 8-40 documents, 1-4 distinct values per field (so most documents tie
    under the first key and the later keys or natural order decide), small numbers for skip /
    limit / slices next to numbers around the size of the collection"""
    SIZES = [8, 8, 9, 10, 11, 12, 12, 13, 14, 16, 16, 17, 20, 20, 24, 25, 31, 32, 40]
    ALPHA_SIZES = [1, 2, 2, 2, 3, 3, 4]

    def draw_ids(self, n):
        """_ids in the order of insertion: 0..n-1, the same numbers in an order that is not the
        order of their values, or numbers and strings mixed"""
        r = self.r
        x = r.random()
        if x < 0.6:
            return list(range(n))
        ids = list(range(n)) if x < 0.85 else \
            [i if r.random() < 0.6 else 'k%02d' % i for i in range(n)]
        r.shuffle(ids)
        return ids

    def small(self, n):
        """a window size: every small number, now and then one around a quarter / a half / the
        whole of the collection"""
        r = self.r
        if r.random() < 0.75:
            return r.randint(1, 6)
        return max(1, r.choice([n // 4 - 1, n // 4, n // 4 + 1, n // 3, n // 2, n - 1, n, n + 2]))

    def num(self, n, neg=0.0):
        r = self.r
        if r.random() < neg:
            return -r.randint(1, 4)
        if r.random() < 0.7:
            return r.randint(0, 6)
        return r.randint(0, n + 2)

    def plain_sort(self, profile):
        """a sort specification over field names (1-3 keys, no `$` key)"""
        for _ in range(8):
            spec = self.sort_spec(profile, allow_none=False)
            if spec and not any(k.startswith('$') for k, _ in spec):
                return spec
        return [['a', 1], ['b', -1]]

    def stages(self, n, profile):
        """a pipeline of $sort / $skip / $limit stages in which a $sort is followed by $limit
        directly, after a $skip, by two of them, or by another $sort"""
        r = self.r
        st = []
        if r.random() < 0.15:
            st.append([r.choice(['skip', 'limit']), self.small(n)])
        for _ in range(r.choice([1, 1, 1, 2])):
            st.append(['sort', dedup_keys(self.plain_sort(profile))])
            x = r.random()
            if x < 0.55:
                st.append(['limit', self.small(n)])
            elif x < 0.7:
                st += [['skip', self.num(n)], ['limit', self.small(n)]]
            elif x < 0.8:
                st += [['limit', self.small(n)], ['skip', self.num(n)]]
            elif x < 0.9:
                st += [['limit', self.small(n)], ['limit', self.small(n)]]
            elif x < 0.95:
                st.append(['limit', self.num(n, 0.3)])      # 0 and negative numbers: rejected
        for s in st:
            if s[0] != 'sort' and r.random() < 0.1:
                s[1] = float(s[1])                           # a double that holds a whole number
        return st


class BG(ManyTies, G):
    pass


class BWG(ManyTies, WG):
    pass


def gen_big_scenario(rng, gcls=BG):
    g = gcls(rng)
    docs, profile = g.docs()
    n = len(docs)
    filt = g.filter(docs) if rng.random() < 0.5 else {}
    cases = []
    # a consistent family: the same settings through every entry point
    spec = g.plain_sort(profile)
    s = g.num(n) if rng.random() < 0.5 else 0
    l = g.small(n)
    cases.append(('find', filt, spec, s, l, [], None))
    cases.append(('find', filt, None, 0, 0, [['sortl', spec], ['skip', s], ['limit', l]], None))
    cases.append(('find', filt, None, 0, 0, [['sortl', spec], ['limit', -l], ['skip', s]], None))
    cases.append(('find', filt, spec, 0, 0, [['slice', s, s + l]], None))
    if filt == {} and dedup_keys(spec) == spec:
        cases.append(('agg', [['sort', spec]] + ([['skip', s]] if s else []) + [['limit', l]]))
    cases.append(('count', filt, s, l))
    # the leading window of every small size, through the stage and through the cursor
    dspec = dedup_keys(spec)
    for w in sorted(rng.sample(range(1, 9), 3)):
        cases.append(('agg', [['sort', dspec], ['limit', w]]))
        x = rng.random()
        if x < 0.4:
            cases.append(('find', filt, spec, 0, w, [], None))
        elif x < 0.7:
            cases.append(('find', filt, None, 0, 0, [['sortl', spec], ['limit', w]], None))
        else:
            cases.append(('find', filt, spec, 0, 0, [['slice', None, w]], None))
    # other sorts: windows anywhere, pipelines, call sequences, a single document by index
    for _ in range(2):
        cases.append(('agg', g.stages(n, profile)))
    spec2 = g.plain_sort(profile)
    cases.append(('find', filt, spec2, g.num(n), g.small(n), [], None))
    ops = [g.cursor_op(n, profile) for _ in range(rng.choice([1, 2, 3]))]
    cases.append(('find', filt, g.sort_spec(profile), g.num(n, 0.03), g.num(n, 0.25), ops,
                  None if rng.random() < 0.7 else g.num(n)))
    return {'docs': docs, 'oids': g.oids, 'profile': profile, 'cases': cases, 'big': True}


def window_shape(n_docs, case):
    """for the coverage record: 'stage' / 'cursor' + how large the first window taken right after
    a sort is against the number of documents ('<=1/4', '<=1/2', 'more'); None = no such window"""
    if case[0] == 'agg':
        st = case[1]
        for i, x in enumerate(st[:-1]):
            if x[0] == 'sort' and st[i + 1][0] == 'limit' and st[i + 1][1] > 0:
                w, where = st[i + 1][1], 'stage'
                break
        else:
            return None
    elif case[0] == 'find':
        try:
            sort, skip, lim = o_settings(case[2], case[3], case[4], case[5])
        except (ValueError, IndexError):
            return None
        if not sort or lim is None or skip:
            return None
        w, where = lim, 'cursor'
    else:
        return None
    return '%s %s' % (where, '<=1/4' if 4 * w <= n_docs else '<=1/2' if 2 * w <= n_docs
                      else 'more')


def gen_history(rng):
    """a write history over a small id alphabet; returns the list of python-level operations"""
    ids = [0, 1, 2, 3, 'a', 'b']
    ops = []
    for _ in range(rng.choice([2, 3, 4, 5, 6, 8, 10])):
        x = rng.random()
        k = rng.choice(ids)
        v = rng.choice([0, 1, 2])
        if x < 0.4:
            ops.append(['insert', k, v])
        elif x < 0.55:
            ops.append(['set', k, v])
        elif x < 0.65:
            ops.append(['replace', k, v])
        elif x < 0.72:
            ops.append(['set_many', v])
        elif x < 0.78:
            ops.append(['fam_update', k, v])
        elif x < 0.84:
            ops.append(['upsert', k, v])
        elif x < 0.87:
            ops.append(['bad_update', k, v])
        elif x < 0.96:
            ops.append(['delete', k])
        else:
            ops.append(['delete_many_v', v])
    return ops


# ------------------------------------------------------------------------------------------
# the real code

def mk_coll(docs):
    coll = mongomock.MongoClient().db.c
    if docs:
        coll.insert_many(copy.deepcopy(docs))
    return coll


def as_sort(spec):
    return None if spec is None else [tuple(x) for x in spec]


def apply_op(cur, op):
    k = op[0]
    if k == 'skip':
        return cur.skip(op[1])
    if k == 'limit':
        return cur.limit(op[1])
    if k == 'sortk':
        return cur.sort(op[1]) if op[2] is None else cur.sort(op[1], op[2])
    if k == 'sortl':
        return cur.sort(as_sort(op[1]))
    if k == 'slice':
        return cur[op[1]:op[2]]
    if k == 'clone':
        return cur.clone()
    if k == 'rewind':
        cur.rewind()
        return cur
    raise ValueError(k)


def py_case(coll, case):
    """run one case on the real code; returns (outcome, extra) — outcome is a list of ids, an
    int, a single id wrapped as ('id', x), or '!ErrName'"""
    extra = {}
    try:
        kind = case[0]
        if kind == 'find':
            _, filt, spec, skip, limit, ops, final = case
            cur = coll.find(copy.deepcopy(filt), sort=as_sort(spec), skip=skip, limit=limit)
            for op in ops:
                cur = apply_op(cur, op)
            if final is None:
                out = [d['_id'] for d in cur]
                cur.rewind()
                extra['rewind'] = [d['_id'] for d in cur]
                extra['clone'] = [d['_id'] for d in cur.clone()]
                return out, extra
            return ('id', cur[final]['_id']), extra
        if kind == 'count':
            _, filt, skip, limit = case
            kw = {'skip': skip}
            if limit is not None:
                kw['limit'] = limit
            return coll.count_documents(copy.deepcopy(filt), **kw), extra
        if kind == 'agg':
            pipeline = []
            for st in case[1]:
                if st[0] == 'sort':
                    pipeline.append({'$sort': collections.OrderedDict(
                        (k, d) for k, d in st[1])})
                else:
                    pipeline.append({'$' + st[0]: st[1]})
            return [d['_id'] for d in coll.aggregate(pipeline)], extra
        raise ValueError(kind)
    except Exception as e:  # pylint: disable=broad-except
        return '!' + wire.err_name(e), extra


def py_history(ops):
    """run a write history on the real code; returns (model ops, final documents)"""
    coll = mongomock.MongoClient().db.c
    mops = []

    def rewrites(keys):
        for k in keys:
            d = coll.find_one({'_id': k})
            if d is not None:
                mops.append(['rew', d['_id'], d])

    for op in ops:
        kind = op[0]
        try:
            if kind == 'insert':
                d = {'_id': op[1], 'v': op[2]}
                mops.append(['ins', op[1], copy.deepcopy(d)])
                coll.insert_one(d)
            elif kind == 'set':
                coll.update_one({'_id': op[1]}, {'$set': {'v': op[2], 'u': 1}})
                rewrites([op[1]])
            elif kind == 'replace':
                coll.replace_one({'_id': op[1]}, {'w': op[2]})
                rewrites([op[1]])
            elif kind == 'set_many':
                keys = set()
                for d in coll.find():
                    keys.add(d['_id'])
                coll.update_many({}, {'$inc': {'n': op[1]}})
                rewrites(sorted(keys, key=repr))
            elif kind == 'bad_update':
                # an update that raises half-way: the rollback must not move the document
                try:
                    coll.update_one({'_id': op[1]}, {'$set': {'v': op[2]}, '$inc': {'s': 'x'}})
                except Exception:  # pylint: disable=broad-except
                    pass
                coll.update_one({'_id': op[1]}, {'$set': {'s': 'x'}})
                try:
                    coll.update_one({'_id': op[1]}, {'$set': {'v': op[2]}, '$inc': {'s': 1}})
                except Exception:  # pylint: disable=broad-except
                    pass
                rewrites([op[1]])
            elif kind == 'fam_update':
                coll.find_one_and_update({'_id': op[1]}, {'$set': {'f': op[2]}})
                rewrites([op[1]])
            elif kind == 'upsert':
                present = coll.find_one({'_id': op[1]}) is not None
                coll.update_one({'_id': op[1]}, {'$set': {'v': op[2]}}, upsert=True)
                if present:
                    rewrites([op[1]])
                else:
                    d = coll.find_one({'_id': op[1]})
                    mops.append(['ins', d['_id'], d])
            elif kind == 'delete':
                coll.delete_one({'_id': op[1]})
                mops.append(['del', op[1]])
            elif kind == 'delete_many_v':
                gone = [d['_id'] for d in coll.find({'v': op[1]})]
                coll.delete_many({'v': op[1]})
                for k in sorted(gone, key=repr):
                    mops.append(['del', k])
        except mongomock.DuplicateKeyError:
            pass
    return mops, list(coll.find()), coll


# ------------------------------------------------------------------------------------------
# independent Python oracle (the rules of the property, on Python values)

def o_class(v):
    if v is None:
        return 2
    if isinstance(v, bool):
        return 9
    if isinstance(v, (int, float)):
        return 3
    if isinstance(v, str):
        return 4
    if isinstance(v, _dt.datetime):
        if v.tzinfo is not None:
            raise Outside('awaredate')
        return 10
    if isinstance(v, ObjectId):
        return 8
    raise Outside(type(v).__name__)


O_MISSING = c11_order.MISSING
o_reach = c11_order.reach


def o_scalar_key(v):
    c = o_class(v)
    if c == 8:
        # an ObjectId is ordered by its bytes: the fixed-width lower-case hex string says the same
        return (1, c, str(v))
    return (1, c, 0 if c == 2 else v)


def o_key(doc, path, desc=False):
    """the sort key of a document: (rank, class, value) — a missing field is null; an array
    stands for its items, the smallest of them for an ascending key, the largest for a
    descending one; an empty array sorts before everything"""
    keys = []
    for v in o_reach(doc, path.split('.')):
        if v is O_MISSING:
            keys.append((1, 2, 0))
        elif isinstance(v, list):
            if not v:
                keys.append((0, 2, 0))
            keys.extend(o_scalar_key(x) for x in v)
        else:
            keys.append(o_scalar_key(v))
    if not keys:
        return (1, 2, 0)
    best = keys[0]
    for k in keys[1:]:
        c = o_cmp(k, best)
        if (c > 0) if desc else (c < 0):
            best = k
    return best


def o_cmp(x, y):
    if x[:2] != y[:2]:
        return -1 if x[:2] < y[:2] else 1
    if x[2] < y[2]:
        return -1
    if y[2] < x[2]:
        return 1
    return 0


def o_sorted(docs, spec, keyf=None, cmpf=None):
    """one stable sort by the lexicographic order of the key tuples (keyf / cmpf: how the key of
    a document is found and how two keys compare — the model's universe by default)"""
    keyf, cmpf = keyf or o_key, cmpf or o_cmp
    if not spec:
        return list(docs)
    if len(spec) == 1 and spec[0][0] == '$natural':
        return list(reversed(docs)) if spec[0][1] < 0 else list(docs)
    if any(k.startswith('$') for k, _ in spec):
        raise Outside('dollarkey')
    keyed = [([keyf(d, k, direction < 0) for k, direction in spec], d) for d in docs]

    def cmp(a, b):
        for (ka, kb, (_, direction)) in zip(a[0], b[0], spec):
            c = cmpf(ka, kb)
            if c:
                return -c if direction < 0 else c
        return 0
    return [d for _, d in sorted(keyed, key=functools.cmp_to_key(cmp))]


def o_settings(spec, skip, limit, ops):
    """the settings a call sequence ends with: (sort, skip, limit) — limit None = no limit;
    raises Outside for negative skip, ValueError/IndexError for calls the rules reject"""
    sort = spec
    lim = None if limit == 0 else abs(limit)
    for op in ops:
        k = op[0]
        if k == 'skip':
            skip = op[1]
        elif k == 'limit':
            lim = None if op[1] == 0 else abs(op[1])
        elif k == 'sortk':
            sort = [[op[1], op[2] or 1]]
        elif k == 'sortl':
            if not op[1]:
                raise ValueError('empty sort')
            sort = op[1]
        elif k == 'slice':
            a = op[1] or 0
            if a < 0:
                raise IndexError('negative start')
            if op[2] is None:
                skip, lim = a, None
            else:
                if op[2] < a:
                    raise IndexError('stop before start')
                skip, lim = a, op[2] - a
    return sort, skip, lim


def w_sorted(docs, spec):
    """the same stable sort, by the reference BSON order over every kind of value"""
    return o_sorted(docs, spec, c11_order.ref_key, c11_order.key_cmp)


def o_agg(selected, stages, sorter=o_sorted):
    """what a pipeline of $sort / $skip / $limit stages gives: ids, or '!Error'"""
    cur = list(selected)
    rejected = False
    for st in stages:
        if st[0] != 'sort' and isinstance(st[1], float) and st[1].is_integer():
            st = [st[0], int(st[1])]    # a whole-number double is that integer
        if st[0] == 'sort':
            cur = sorter(cur, st[1])
        elif st[1] < 0 or (st[0] == 'limit' and st[1] == 0):
            # a negative $skip, a $limit that is not positive: the pipeline is
            # rejected, wherever the stage stands
            rejected = True
        elif st[0] == 'skip':
            cur = cur[st[1]:]
        else:
            cur = cur[:st[1]]
    return '!Error' if rejected else [d['_id'] for d in cur]


def o_count(selected, case):
    """count_documents(skip, limit): the length of the slice; None = no claim"""
    _, _f, skip, limit = case
    if skip >= 0 and (limit is None or (isinstance(limit, int) and limit > 0)):
        return len(selected[skip:] if limit is None else selected[skip:][:limit])
    return None


def o_find(selected, case, sorter=o_sorted):
    _, _filt, spec, skip, limit, ops, final = case
    try:
        sort, skip, lim = o_settings(spec, skip, limit, ops)
    except (ValueError, IndexError):
        return '!Error'
    if skip < 0:
        raise Outside('negskip')
    res = sorter(selected, sort)[skip:]
    if lim is not None:
        res = res[:lim]
    if final is None:
        return [d['_id'] for d in res]
    if final < 0 or final >= len(res):
        return '!Error'
    return ('id', res[final]['_id'])


def first_key_stats(selected, sort):
    """(number of BSON classes, has tie) under the first sort key, by the oracle's keys"""
    if not sort or sort[0][0].startswith('$'):
        return 0, False
    try:
        ks = [o_key(d, sort[0][0], sort[0][1] < 0) for d in selected]
    except Outside:
        return 0, False
    tie = any(o_cmp(ks[i], ks[j]) == 0 for i in range(len(ks)) for j in range(i))
    return len({k[:2] for k in ks}), tie


# ------------------------------------------------------------------------------------------
# the model

def enc_case(sc, case):
    o = sc['oids']
    e = lambda v: wire.encs(v, o)  # noqa: E731
    kind = case[0]
    if kind == 'find':
        _, filt, spec, skip, limit, ops, final = case
        return 'c11 find %s %s %s %s %s %s %s' % (e(filt), e(sc['docs']), e(spec), e(skip),
                                                  e(limit), e(ops), e(final))
    if kind == 'count':
        _, filt, skip, limit = case
        return 'c11 count %s %s %s %s' % (e(filt), e(sc['docs']), e(skip), e(limit))
    if kind == 'agg':
        return 'c11 agg %s %s' % (e(sc['docs']), e(case[1]))
    raise ValueError(kind)


def canon_py(out, oids):
    """python outcome in the driver's notation"""
    if isinstance(out, str):
        return out
    if isinstance(out, tuple):
        return wire.encs(out[1], oids)
    if isinstance(out, bool):
        return wire.encs(out, oids)
    if isinstance(out, int):
        return 'I%d' % out
    return wire.encs(list(out), oids)


def norm(x):
    x = x.strip()
    if x.startswith('!?'):
        return '?'
    if x.startswith('!'):
        return 'E'
    return x


def parse_out(o):
    parts = [x.strip() for x in o.split('|')]
    while len(parts) < 3:
        parts.append('')
    return parts[0], parts[1], parts[2].split()


def render(sc, case, line=None):
    r = {'kind': case[0], 'docs': [wire.pretty(d) for d in sc['docs']],
         'call': wire.pretty(list(case[1:])),
         'line': line or enc_case(sc, case)}
    return r


class Judge(object):
    def __init__(self, ctx):
        self.ctx = ctx
        self.known = {e['id'] for e in common.load_known('C11') if e.get('status') == 'known'}
        self.zone = collections.Counter()
        self.reasons = collections.Counter()
        self.findings = collections.Counter()
        self.kinds = collections.Counter()
        self.errors = collections.Counter()
        self.oracle = collections.Counter()
        self.internal = []

    def judge(self, sc, case, line, py, impl, spec, reasons, py_oracle):
        """py / impl / spec in driver notation; py_oracle likewise or None"""
        ctx = self.ctx
        self.kinds[case[0]] += 1
        if py.startswith('!'):
            self.errors[py[1:]] += 1
        p, m, s = norm(py), norm(impl), norm(spec)
        if m == '?':
            self.zone['unmodelled'] += 1
            return 'unmodelled'
        zone = 'D' if not reasons else 'F-minus-D'
        self.zone[zone] += 1
        for r in reasons:
            self.reasons[r] += 1
        # the property stated directly on python's output (independent oracle), inside D
        if zone == 'D' and py_oracle is not None:
            self.oracle['checked'] += 1
            if norm(py_oracle) != p:
                what = {'find': 'find/cursor output is not the contiguous skip/limit slice of the '
                                'stable sort by the BSON key order',
                        'agg': 'aggregate output is not the stable sorts / contiguous slices its '
                               '$sort/$skip/$limit stages ask for',
                        'count': 'count_documents(skip, limit) is not the length of the '
                                 'corresponding slice'}[case[0]]
                ctx.violation(dict(render(sc, case, line), kind=what,
                                   py=py, expected=py_oracle, impl=impl, spec=spec),
                              rank=len(line))
                return 'violation'
            if s != '?' and norm(py_oracle) != s:
                self.internal.append(dict(render(sc, case, line), what='python oracle and Lean '
                                          'oracle differ', py_oracle=py_oracle, spec=spec))
        if p == m:
            if s == '?' or s == p:
                return zone
            if not reasons:
                self.internal.append(dict(render(sc, case, line), py=py, impl=impl, spec=spec))
                return zone
            fcl = set(reasons) & FINDING_CLASSES
            if not fcl:
                return zone            # scope limit: no oracle there
            for r in fcl:
                self.findings[r] += 1
            if not (fcl & self.known):
                ctx.violation(dict(render(sc, case, line), kind='deviation from the rules in an '
                                   'unlisted class', py=py, impl=impl, spec=spec,
                                   reasons=reasons))
                return 'violation'
            for r in fcl & self.known:
                ctx.known_seen[r] = ctx.known_seen.get(r, 0) + 1
            return zone
        # python and the model disagree
        if s != '?' and s == p and not (set(reasons) & SCOPE_CLASSES):
            ctx.notes.append('model stale but python follows the rules: ' + line[:300])
            return zone
        if zone == 'D' or (set(reasons) & FINDING_CLASSES and not set(reasons) & SCOPE_CLASSES):
            ctx.violation(dict(render(sc, case, line), kind='python disagrees with the model and '
                               'with the rules', py=py, impl=impl, spec=spec, reasons=reasons,
                               zone=zone), rank=(0 if zone == 'D' else 10000) + len(line))
        else:
            ctx.violation(dict(render(sc, case, line), kind='correspondence broken: python differs '
                               'from the model MongoModel/Sort.lean on this input; the oracle '
                               'makes no claim here', what_no_longer_checks='correspondence '
                               'mongomock Cursor/_get_dataset/count_documents/$sort ~ '
                               'MongoModel.Sort', py=py, impl=impl, spec=spec, reasons=reasons),
                          no_input=True)
        return 'violation'


def idkey(v):
    """an _id as a hashable key that tells 1, 1.0, True and '1' apart"""
    return (type(v).__name__, repr(v))


def ids_of(docs):
    return [d['_id'] for d in docs]


NATURAL_WHAT = ('without a sort, the documents a filter selects do not come back in insertion '
                'order, each once (natural order must not depend on the filter)')


def stored_docs(ctx, sc, coll, render):
    """the stored documents in natural order; stated directly: find() without filter and sort
    gives the documents in the order in which they were inserted"""
    stored = list(coll.find())
    if [idkey(i) for i in ids_of(stored)] != [idkey(i) for i in ids_of(sc['docs'])]:
        case = ('find', {}, None, 0, 0, [], None)
        ctx.violation(dict(render(sc, case), kind=NATURAL_WHAT, py=wire.pretty(ids_of(stored)),
                           expected=wire.pretty(ids_of(sc['docs']))))
    return stored


def natural_selection(coll, filt, stored=None):
    """(the stored documents the filter matches, in natural order; the ids an unsorted find
    under the filter gives)"""
    stored = list(coll.find()) if stored is None else stored
    matched = ids_of(coll.find(copy.deepcopy(filt)))
    keys = {idkey(i) for i in matched}
    return [d for d in stored if idkey(d['_id']) in keys], matched


def selected_docs(ctx, sc, coll, filt, stored, render):
    """the documents the rules speak about: WHICH documents a filter matches is the filter's
    business (C01) and is taken from the real code as a set; their ORDER is the order of
    insertion, whatever the filter looks like — an unsorted find under the filter is judged
    against that here, and everything the cases build on it (sort ties, $natural, skip / limit
    / slices, counts) is judged against this sequence by the oracles"""
    sel, matched = natural_selection(coll, filt, stored)
    if [idkey(i) for i in matched] != [idkey(i) for i in ids_of(sel)]:
        case = ('find', filt, None, 0, 0, [], None)
        ctx.violation(dict(render(sc, case), kind=NATURAL_WHAT, py=wire.pretty(matched),
                           expected=wire.pretty(ids_of(sel))))
    return sel


def run_scenarios(ctx, scs, judge, stats):
    lines = []
    meta = []
    for sc in scs:
        try:
            sc_lines = [enc_case(sc, c) for c in sc['cases']]
        except wire.Unencodable:
            continue
        coll = mk_coll(sc['docs'])
        stored = stored_docs(ctx, sc, coll, render)
        sel_cache = {}
        fam = []
        for case, line in zip(sc['cases'], sc_lines):
            py, extra = py_case(coll, case)
            # rewind / clone give the same sequence again
            if isinstance(py, list):
                for k in ('rewind', 'clone'):
                    if k in extra and extra[k] != py:
                        ctx.violation(dict(render(sc, case, line), kind='%s() changes what the '
                                           'cursor returns' % k, first=wire.pretty(py),
                                           again=wire.pretty(extra[k])))
            py_oracle = None
            fk = json.dumps(wire.pretty(case[1])) if case[0] != 'agg' else '{}'
            if fk not in sel_cache:
                sel_cache[fk] = selected_docs(ctx, sc, coll, case[1], stored, render) \
                    if case[0] != 'agg' else stored
            sel = sel_cache[fk]
            try:
                if case[0] == 'find':
                    po = o_find(sel, case)
                    py_oracle = canon_py(po, sc['oids'])
                elif case[0] == 'count':
                    n = o_count(sel, case)
                    if n is not None:
                        py_oracle = 'I%d' % n
                elif case[0] == 'agg':
                    py_oracle = canon_py(o_agg(sel, case[1]), sc['oids'])
            except Outside:
                py_oracle = None
            lines.append(line)
            meta.append((sc, case, line, canon_py(py, sc['oids']), py_oracle, sel))
            fam.append((case, py))
        # the entry points agree with one another (first cases of the scenario are one family)
        check_family(ctx, sc, fam, coll=coll)
    outs = wire.run_driver(lines)
    for (sc, case, line, py, py_oracle, sel), o in zip(meta, outs):
        if o.startswith('?'):
            raise RuntimeError('driver could not parse: %s -> %s' % (line, o))
        impl, spec, reasons = parse_out(o)
        z = judge.judge(sc, case, line, py, impl, spec, reasons, py_oracle)
        stats['evaluations'] += 1
        if case[0] in ('find', 'agg') and z in ('D', 'F-minus-D'):
            sort = effective_sort(case)
            ncls, tie = first_key_stats(sel, sort)
            stats['first_key_classes'][str(ncls)] += 1
            if sort:
                stats['sort_keys'][str(len(sort))] += 1
            if tie and ncls >= 2 and not py.startswith('!'):
                h = common.case_hash(line)
                if h not in stats['nontrivial']:
                    stats['nontrivial'].add(h)
                    if len(stats['samples']) < 4 and z == 'D' and len(sel) >= 4:
                        stats['samples'].append(dict(render(sc, case, line), python=py))


def effective_sort(case):
    if case[0] == 'agg':
        for st in case[1]:
            if st[0] == 'sort':
                return st[1]
        return None
    try:
        return o_settings(case[2], case[3], case[4], case[5])[0]
    except (ValueError, IndexError):
        return None


def check_family(ctx, sc, fam, render=None, coll=None):
    """find(sort=,skip=,limit=) = .sort().skip().limit() = negative limit = slice = aggregate
    (with the filter as a leading $match) and find_one = its first document, and
    count_documents = the length (stated on python's outputs alone)"""
    render = render or globals()['render']
    if not fam or fam[0][0][0] != 'find':
        return
    base = fam[0][1]
    if not isinstance(base, list):
        return
    if coll is not None:
        check_other_entry_points(ctx, sc, coll, fam[0][0], base, render)
    for case, py in fam[1:]:
        if case[0] == 'count' and case[1] == fam[0][0][1] and case[2] == fam[0][0][3] \
                and case[3] == fam[0][0][4]:
            if py != len(base):
                ctx.violation(dict(render(sc, case), kind='count_documents(skip, limit) is not '
                                   'the length of find(skip, limit)', count=py,
                                   find=wire.pretty(base)))
            return
        if case[0] == 'count':
            return
        if isinstance(py, list) and py != base:
            ctx.violation(dict(render(sc, case), kind='two ways of asking for the same sort / '
                               'skip / limit disagree', this=wire.pretty(py),
                               find_with_arguments=wire.pretty(base)))
        elif not isinstance(py, list):
            # the constructor form worked, an equivalent call sequence raised
            ctx.violation(dict(render(sc, case), kind='an equivalent call sequence raises',
                               this=py, find_with_arguments=wire.pretty(base)))


def check_other_entry_points(ctx, sc, coll, case, base, render):
    """python-only, for every filter shape: find_one(filter, sort=, skip=) is the first document
    of find(filter, sort=, skip=, limit=l) (l >= 1), and aggregate([$match filter, $sort, $skip,
    $limit]) is that very list"""
    _, filt, spec, skip, limit, ops, final = case
    if limit < 1 or ops or final is not None:
        return
    try:
        one = coll.find_one(copy.deepcopy(filt), sort=as_sort(spec), skip=skip)
        got = None if one is None else [one['_id']]
    except Exception as e:  # pylint: disable=broad-except
        got = '!' + wire.err_name(e)
    want = [base[0]] if base else None
    if got != want:
        ctx.violation(dict(render(sc, case), kind='find_one(filter, sort, skip) is not the first '
                           'document of find(filter, sort, skip)', find_one=wire.pretty(got),
                           find_with_arguments=wire.pretty(base)))
    if filt and spec and not any(k.startswith('$') for k, _ in spec) \
            and dedup_keys(spec) == spec:
        pipeline = [{'$match': copy.deepcopy(filt)},
                    {'$sort': collections.OrderedDict((k, d) for k, d in spec)},
                    {'$skip': skip}, {'$limit': limit}]
        try:
            agg = ids_of(coll.aggregate(pipeline))
        except Exception as e:  # pylint: disable=broad-except
            agg = '!' + wire.err_name(e)
        if agg != base:
            ctx.violation(dict(render(sc, case), kind='aggregate([$match filter, $sort, $skip, '
                               '$limit]) is not find(filter, sort, skip, limit)',
                               aggregate=wire.pretty(agg), find_with_arguments=wire.pretty(base)))


# ------------------------------------------------------------------------------------------
# the order over every kind of value: python-only oracle (harness/c11_order.py)

WIDE_WHAT = {'find': 'find/cursor output is not the contiguous skip/limit slice of the stable '
                     'sort by the BSON comparison order of the sort keys',
             'agg': 'aggregate output is not the stable sorts by the BSON comparison order / the '
                    'contiguous slices its $sort/$skip/$limit stages ask for',
             'count': 'count_documents(skip, limit) is not the length of the corresponding slice'}


def pretty_w(v):
    """wire.pretty, with non-finite doubles spelled out (a replay file is plain JSON)"""
    if isinstance(v, dict):
        return {k: pretty_w(x) for k, x in v.items()}
    if isinstance(v, (list, tuple)):
        return [pretty_w(x) for x in v]
    if isinstance(v, float) and (v != v or v in (float('inf'), float('-inf'))):
        return 'float(%r)' % v
    return wire.pretty(v)


def render_wide(sc, case, line=None):
    """the readable case, and under 'wide' the exact input (c11_order.jenc) a replay rebuilds"""
    try:
        wide = {'docs': c11_order.jenc(sc['docs']), 'case': c11_order.jenc(list(case))}
    except Outside:
        wide = None
    return {'kind': case[0], 'docs': [pretty_w(d) for d in sc['docs']],
            'call': pretty_w(list(case[1:])), 'wide': wide}


def wide_case_of(e):
    """(scenario, case) of a replay / witness written by render_wide"""
    docs = c11_order.jdec(e['wide']['docs'])
    case = tuple(c11_order.jdec(e['wide']['case']))
    return {'docs': docs, 'oids': wire.Oids(), 'cases': [case], 'profile': 'W'}, case


def all_sorts(case):
    """every sort specification a case sorts by"""
    if case[0] == 'agg':
        return [st[1] for st in case[1] if st[0] == 'sort']
    if case[0] == 'find':
        s = effective_sort(case)
        return [s] if s else []
    return []


def wide_expected(sel, case):
    """what the rules ask of the case, by the reference order; None = no claim"""
    try:
        if case[0] == 'find':
            return o_find(sel, case, w_sorted)
        if case[0] == 'agg':
            return o_agg(sel, case[1], w_sorted)
        return o_count(sel, case)
    except Outside:
        return None


def wide_norm(out):
    if isinstance(out, str) and out.startswith('!'):
        return 'E'
    return out


class WideJudge(object):
    def __init__(self, ctx):
        self.ctx = ctx
        self.known = {e['id'] for e in common.load_known('C11') if e.get('status') == 'known'}
        self.n = collections.Counter()
        self.kinds = collections.Counter()
        self.brackets = collections.Counter()
        self.within = collections.Counter()
        self.findings = collections.Counter()
        self.errors = collections.Counter()
        self.nontrivial = set()
        self.samples = []


def run_wide(ctx, scs, wj):
    """the property on python's output alone, for sort keys of every kind: the order of
    find().sort(), of a sorted cursor with skip / limit / slices and of $sort is the reference
    order; deviations in a listed class (c11_order.FINDING_TEXT) are known findings"""
    for sc in scs:
        coll = mk_coll(sc['docs'])
        stored = stored_docs(ctx, sc, coll, render_wide)
        sel_cache = {}
        fam = []
        wj.n['scenarios'] += 1
        for case in sc['cases']:
            py, extra = py_case(coll, case)
            wj.n['cases'] += 1
            wj.kinds[case[0]] += 1
            if isinstance(py, str):
                wj.errors[py[1:]] += 1
            if isinstance(py, list):
                for k in ('rewind', 'clone'):
                    if k in extra and extra[k] != py:
                        ctx.violation(dict(render_wide(sc, case), kind='%s() changes what the '
                                           'cursor returns' % k, first=wire.pretty(py),
                                           again=wire.pretty(extra[k])))
            fam.append((case, py))
            if case[0] == 'agg':
                sel = stored
            else:
                fk = repr(case[1])
                if fk not in sel_cache:
                    sel_cache[fk] = selected_docs(ctx, sc, coll, case[1], stored, render_wide)
                sel = sel_cache[fk]
            exp = wide_expected(sel, case)
            if exp is None:
                wj.n['no_claim'] += 1
                continue
            wj.n['checked'] += 1
            sorts = all_sorts(case)
            if wide_norm(py) != wide_norm(exp):
                flags = c11_order.flags_of(sel, sorts)
                if flags & wj.known:
                    for f in flags & wj.known:
                        wj.findings[f] += 1
                        ctx.known_seen[f] = ctx.known_seen.get(f, 0) + 1
                    continue
                r = dict(render_wide(sc, case), kind=WIDE_WHAT[case[0]],
                         py=wire.pretty(py if not isinstance(py, tuple) else list(py)),
                         expected=wire.pretty(exp if not isinstance(exp, tuple) else list(exp)),
                         oracle='reference BSON comparison order (harness/c11_order.py)')
                if flags:
                    r['deviation_classes_not_listed_as_known'] = sorted(flags)
                ctx.violation(r, rank=len(json.dumps(r, default=repr)))
                continue
            if sorts and not isinstance(py, str) and (
                    case[0] == 'find' or (case[0] == 'agg' and case[1][0][0] == 'sort')):
                seen, within = c11_order.first_key_brackets(sel, sorts[0])
                for b in seen:
                    wj.brackets[b] += 1
                for b in within:
                    wj.within[b] += 1
                if within and len(seen) >= 2:
                    h = common.case_hash(repr((sc['docs'], case)))
                    if h not in wj.nontrivial:
                        wj.nontrivial.add(h)
                        if len(wj.samples) < 2 and len(sel) >= 4 and (
                                {'binary', 'regex'} & set(seen)):
                            wj.samples.append(dict(render_wide(sc, case), wide=None,
                                                   python=wire.pretty(py)))
        check_family(ctx, sc, fam, render_wide, coll=coll)


def wide_encodable(sc):
    try:
        for c in sc['cases']:
            enc_case(sc, c)
        return True
    except wire.Unencodable:
        return False


def history_reads(ctx, rng, ops, final, coll, filters=None):
    """python-only: after a write history, reading through a filter that pins _id (ids listed in
    any order) gives the surviving documents in the order find() shows them — rewrites moved
    nothing, whatever the filter; stated on the ids, find_one is the first of them"""
    ids = ids_of(final)
    if filters is None:
        if len(ids) < 2:
            return
        vals = rng.sample(ids, rng.randint(2, len(ids)))
        if rng.random() < 0.3:
            vals.append(rng.choice(vals))
        filters = [rng.choice([{'_id': {'$in': vals}}, {'$or': [{'_id': v} for v in vals]},
                               {'_id': {'$in': vals}, 'zz': {'$exists': False}}])]
    for filt in filters:
        _sel, got = natural_selection(coll, filt, final)
        want = ids_of(_sel)
        one = coll.find_one(copy.deepcopy(filt))
        if [idkey(i) for i in got] != [idkey(i) for i in want] or \
                (one is None) != (not want) or (want and idkey(one['_id']) != idkey(want[0])):
            ctx.violation({'kind': 'after a write history, ' + NATURAL_WHAT,
                           'history': wire.pretty(ops), 'read_filter': wire.pretty(filt),
                           'python': wire.pretty(got), 'expected': wire.pretty(want),
                           'find_one': wire.pretty(one), 'find_all': wire.pretty(ids)},
                          rank=2000 + len(json.dumps(wire.pretty(ops))))


def run_histories(ctx, n, rng, judge, stats):
    lines, meta = [], []
    for _ in range(n):
        ops = gen_history(rng)
        oids = wire.Oids()
        mops, final, coll = py_history(ops)
        line = 'c11 hist ' + wire.encs(mops, oids)
        lines.append(line)
        meta.append((ops, mops, final, oids, line))
        history_reads(ctx, rng, ops, final, coll)
    outs = wire.run_driver(lines)
    for (ops, mops, final, oids, line), o in zip(meta, outs):
        impl, spec, _ = parse_out(o)
        stats['evaluations'] += 1
        judge.kinds['history'] += 1
        judge.zone['D'] += 1
        py_docs = wire.encs(final, oids)
        py_ids = wire.encs([d['_id'] for d in final], oids)
        if impl != py_docs or spec != py_ids:
            ctx.violation({'kind': 'natural order after a write history differs from insertion '
                           'order of the surviving documents', 'history': wire.pretty(ops),
                           'python': wire.pretty(final), 'impl': impl, 'spec_ids': spec,
                           'line': line}, rank=len(line))
            continue
        moved = False
        present = []
        for m in mops:
            if m[0] == 'ins' and m[1] not in present:
                present.append(m[1])
            elif m[0] == 'rew' and m[1] in present and present[-1] != m[1]:
                moved = True
            elif m[0] == 'del' and m[1] in present:
                if present[-1] != m[1]:
                    moved = True
                present.remove(m[1])
        if moved:
            h = common.case_hash(line)
            stats['nontrivial'].add(h)
            if stats['hist_samples'] < 1:
                stats['hist_samples'] += 1
                stats['samples'].append({'kind': 'history', 'history': wire.pretty(ops),
                                         'python_ids': wire.pretty([d['_id'] for d in final])})


def corpus_lines():
    import glob
    import os
    out = []
    for p in sorted(glob.glob(os.path.join(common.VERIF, 'corpus', 'C11', '*.json'))):
        out.append(json.load(open(p))['line'])
    # the witnesses of repaired defects stay in the corpus: they are judged like any other case
    # (inside D now), so the defect coming back is a VIOLATION
    for e in common.load_known('C11'):
        if e.get('status') == 'fixed' and e.get('witness', {}).get('line'):
            out.append(e['witness']['line'])
    return out


# ------------------------------------------------------------------------------------------
# replaying one wire line on the real code

def split_vals(tokens, oids):
    vals, i = [], 0
    while i < len(tokens):
        v, i = wire.dec_tokens(tokens, i, oids)
        vals.append(v)
    return vals


def case_of_line(line):
    """(scenario, case) of a `c11 …` line"""
    ts = line.split()
    assert ts[0] == 'c11'
    oids = wire.Oids()
    vals = split_vals(ts[2:], oids)
    kind = ts[1]
    if kind == 'find':
        filt, docs, spec, skip, limit, ops, final = vals
        return {'docs': docs, 'oids': oids, 'cases': []}, ('find', filt, spec, skip, limit, ops,
                                                           final)
    if kind == 'count':
        filt, docs, skip, limit = vals
        return {'docs': docs, 'oids': oids, 'cases': []}, ('count', filt, skip, limit)
    if kind == 'agg':
        docs, stages = vals
        return {'docs': docs, 'oids': oids, 'cases': []}, ('agg', stages)
    raise ValueError(kind)


def run_line(ctx, line, judge, stats):
    if line.split()[1] == 'hist':
        raise ValueError('history replays are re-run from their python-level history')
    sc, case = case_of_line(line)
    sc['cases'] = [case]
    run_scenarios(ctx, [sc], judge, stats)


def new_stats():
    return {'evaluations': 0, 'nontrivial': set(), 'samples': [], 'hist_samples': 0,
            'first_key_classes': collections.Counter(), 'sort_keys': collections.Counter()}


def run(ctx, proof, driver_ok):
    if not driver_ok:
        return {'explanation': 'model driver unavailable; no correspondence run'}
    n = ctx.n(6000, 100000)
    nh = ctx.n(3000, 40000)
    rng = random.Random(ctx.seed * 1000003 + 1111)
    judge = Judge(ctx)
    stats = new_stats()
    corpus = corpus_lines()
    for line in corpus:
        run_line(ctx, line, judge, stats)
    done = 0
    batch = 400
    profiles = collections.Counter()
    sizes = collections.Counter()
    while done < n and not ctx.too_many():
        scs = [gen_scenario(rng) for _ in range(min(batch, n - done))]
        done += len(scs)
        for sc in scs:
            profiles[sc['profile']] += 1
            sizes[str(len(sc['docs']))] += 1
        run_scenarios(ctx, scs, judge, stats)
    run_histories(ctx, nh, rng, judge, stats)
    # sort keys of every kind of value: the reference order on python's output; the scenarios the
    # wire can carry also go through the model
    nw = ctx.n(1500, 25000)
    wrng = random.Random(ctx.seed * 1000003 + 2222)
    wj = WideJudge(ctx)
    wdone = 0
    wmodel = 0
    while wdone < nw and not ctx.too_many():
        scs = [gen_scenario(wrng, WG) for _ in range(min(batch, nw - wdone))]
        wdone += len(scs)
        run_wide(ctx, scs, wj)
        enc = [sc for sc in scs if wide_encodable(sc)]
        wmodel += len(enc)
        run_scenarios(ctx, enc, judge, stats)
    # larger collections full of ties, small windows: through the model and the python oracle
    # (values of the model's universe) and through the every-kind order oracle
    nb = ctx.n(450, 7000)
    nbw = ctx.n(150, 2500)
    brng = random.Random(ctx.seed * 1000003 + 3333)
    big = {'scenarios': 0, 'scenarios_every_kind': 0, 'every_kind_also_through_the_model': 0,
           'cases': 0, 'sizes': collections.Counter(), 'windows': collections.Counter()}
    bdone = 0
    while bdone < nb + nbw and not ctx.too_many():
        wide = bdone >= nb
        k = min(150, (nb + nbw if wide else nb) - bdone)
        scs = [gen_big_scenario(brng, BWG if wide else BG) for _ in range(k)]
        bdone += k
        for sc in scs:
            big['scenarios_every_kind' if wide else 'scenarios'] += 1
            big['cases'] += len(sc['cases'])
            big['sizes'][len(sc['docs'])] += 1
            for c in sc['cases']:
                ws = window_shape(len(sc['docs']), c)
                if ws:
                    big['windows'][ws] += 1
        if wide:
            run_wide(ctx, scs, wj)
            scs = [sc for sc in scs if wide_encodable(sc)]
            big['every_kind_also_through_the_model'] += len(scs)
        run_scenarios(ctx, scs, judge, stats)
    if judge.internal:
        raise RuntimeError('model and oracle differ inside D (contradicts the theorems): %r'
                           % judge.internal[:2])
    return {
        'evaluations': stats['evaluations'],
        'distinct_nontrivial': len(stats['nontrivial']),
        'rule': RULE,
        'samples': stats['samples'],
        'scenarios': done,
        'histories': nh,
        'corpus_cases': len(corpus),
        'case_kinds': dict(judge.kinds),
        'zones': dict(judge.zone),
        'exclusion_reasons_hit': dict(judge.reasons),
        'deviations_by_reason': dict(judge.findings),
        'python_oracle': dict(judge.oracle),
        'python_error_kinds': dict(judge.errors),
        'collection_size_histogram': dict(sorted(sizes.items())),
        'profile_histogram': dict(profiles),
        'first_key_type_classes_histogram': dict(sorted(stats['first_key_classes'].items())),
        'sort_key_count_histogram': dict(sorted(stats['sort_keys'].items())),
        'many_ties_collections': {
            'what': 'collections of 8-40 documents with 1-4 distinct values per field; the '
                    'leading window of every small size right after a sort ($sort + $limit, '
                    'sort().limit(), slices), windows anywhere, pipelines with several sorts and '
                    'cuts; judged like every other case (model, python oracle, every-kind oracle)',
            'scenarios': big['scenarios'], 'scenarios_every_kind': big['scenarios_every_kind'],
            'every_kind_also_through_the_model': big['every_kind_also_through_the_model'],
            'cases': big['cases'],
            'collection_size_histogram': {str(k): v for k, v in sorted(big['sizes'].items())},
            'first_window_after_a_sort_histogram': dict(sorted(big['windows'].items())),
        },
        'every_kind_order_oracle': {
            'what': 'python-only: find().sort / sorted cursor with skip, limit, slices / $sort '
                    'over sort keys drawn from every kind of value bson_compare orders, against '
                    'the reference order harness/c11_order.py',
            'scenarios': wdone, 'scenarios_also_through_the_model': wmodel,
            'cases': wj.n['cases'], 'checked': wj.n['checked'], 'no_claim': wj.n['no_claim'],
            'case_kinds': dict(wj.kinds),
            'distinct_nontrivial': len(wj.nontrivial),
            'nontrivial_rule': 'the case sorts, its first key sees at least two brackets and two '
                               'documents with different keys inside one bracket',
            'first_key_brackets_histogram': dict(sorted(wj.brackets.items())),
            'first_key_decided_inside_bracket_histogram': dict(sorted(wj.within.items())),
            'deviations_in_known_classes': dict(wj.findings),
            'python_error_kinds': dict(wj.errors),
            'samples': wj.samples,
        },
    }


def replay(ctx, path):
    e = json.load(open(path))
    judge = Judge(ctx)
    stats = new_stats()
    if 'history' in e:
        ops = e['history']
        oids = wire.Oids()
        mops, final, coll = py_history(ops)
        if 'read_filter' in e:
            history_reads(ctx, None, ops, final, coll, [e['read_filter']])
        line = 'c11 hist ' + wire.encs(mops, oids)
        impl, spec, _ = parse_out(wire.run_driver([line])[0])
        ok = impl == wire.encs(final, oids) and spec == wire.encs([d['_id'] for d in final], oids)
        if not ok:
            ctx.violation({'kind': 'natural order after a write history', 'history': ops,
                           'python': wire.pretty(final), 'impl': impl, 'spec_ids': spec})
        print(json.dumps({'python': wire.pretty(final), 'violations': len(ctx.violations)},
                         default=repr))
        return common.finish(ctx)
    if e.get('wide'):
        sc, case = wide_case_of(e)
        run_wide(ctx, [sc], WideJudge(ctx))
        py, _ = py_case(mk_coll(sc['docs']), case)
        exp = wide_expected(natural_selection(mk_coll(sc['docs']), case[1])[0]
                            if case[0] != 'agg' else list(mk_coll(sc['docs']).find()), case)
        print(json.dumps({'python': wire.pretty(py if not isinstance(py, tuple) else py[1]),
                          'expected': wire.pretty(exp if not isinstance(exp, tuple) else exp[1]),
                          'violations': len(ctx.violations)}, default=repr))
        return common.finish(ctx)
    run_line(ctx, e['line'], judge, stats)
    sc, case = case_of_line(e['line'])
    py, _ = py_case(mk_coll(sc['docs']), case)
    print(json.dumps({'python': wire.pretty(py if not isinstance(py, tuple) else py[1]),
                      'violations': len(ctx.violations), 'internal': judge.internal[:1]},
                     default=repr))
    return common.finish(ctx)


def replay_finding(ctx, e):
    """does the listed witness still deviate from the rules on the real code?"""
    if e['witness'].get('wide'):
        sc, case = wide_case_of(e['witness'])
        coll = mk_coll(sc['docs'])
        py, _ = py_case(coll, case)
        sel = list(coll.find()) if case[0] == 'agg' else natural_selection(coll, case[1])[0]
        return wide_norm(py) != wide_norm(wide_expected(sel, case))
    sc, case = case_of_line(e['witness']['line'])
    py, _ = py_case(mk_coll(sc['docs']), case)
    got = canon_py(py, sc['oids'])
    return norm(got) != norm(e['witness']['spec'])
