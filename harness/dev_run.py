"""development aid: run a property's harness without the proof step.  usage: dev_run.py C12 quick 0"""
import importlib, json, os, sys, time
HERE = os.path.dirname(os.path.abspath(__file__))
sys.path.insert(0, HERE)
import common, wire
prop, tier, seed = sys.argv[1], sys.argv[2], int(sys.argv[3])
ctx = common.Ctx(prop, tier, seed)
mod = importlib.import_module('props.' + prop.lower())
t = time.time()
cov = mod.run(ctx, {'ok': True}, True)
for e in common.load_known(prop):
    print('finding', e['id'], 'still fails' if mod.replay_finding(ctx, e) else 'GONE', ctx.known_seen.get(e['id'], 0))
cov.pop('rule', None)
print(json.dumps(cov, indent=1, default=repr)[:6000])
print('notes', ctx.notes[:5])
print('violations', len(ctx.violations), 'time %.1f' % (time.time() - t))
for v in sorted(ctx.violations, key=lambda v: (v[3], v[0]))[:int(os.environ.get('SHOW', 3))]:
    print(json.dumps({k: x for k, x in v[2].items() if not k.startswith('wire')}, default=repr)[:1500])
