"""Type-directed generator of aggregation expressions and of the documents they run on (C04).

Every sub-expression is generated for a static type (num / str / bool / arr / sarr / date / doc /
any), so that most expressions evaluate without a type error; the documents of a case share one
schema (fields of fixed type that are present, null or missing), so that one expression separates
them.  Doubles are dyadic (halves, quarters) and magnitudes small, so float results stay exact.
All randomness comes from the one random.Random passed in.
"""
import collections
import copy
import datetime as _dt

NUMF = ['a', 'b']
STRF = ['s', 'u']
BOOLF = ['f']
ARRF = ['l']          # arrays of numbers
SARRF = ['m']         # arrays of strings
DATEF = ['t']
DOCF = ['d']          # {n: num, s: str, l: [num]}
ANYF = ['x']
QF = ['q']            # array of sub-documents (path traversal through arrays)

INTS = [-2, -1, 0, 1, 2, 3, 5]
# the wide pool: 32- and 64-bit integers at the int32 / int64 boundaries and around 2**53, the
# point from which on a double no longer holds every integer (snowflake-style ids, nanosecond
# timestamps); all of them are BSON int64 values
WIDE_INTS = [2 ** 31 - 1, 2 ** 31, -2 ** 31, -2 ** 31 - 1, 2 ** 32, 2 ** 32 + 1, 10 ** 9 + 7,
             2 ** 53 - 1, 2 ** 53, 2 ** 53 + 1, -(2 ** 53 + 1), 2 ** 53 + 2, 2 ** 53 + 3,
             2 ** 54 + 2, 2 ** 60 + 1, 1541815603606036481, 1700000000123456789,
             10 ** 18 + 3, 2 ** 62 + 1, 2 ** 63 - 1, -2 ** 63, -2 ** 63 + 1]
WIDE_BITS = [31, 32, 33, 40, 52, 53, 54, 54, 55, 57, 60, 62, 63, 63]
FLOATS = [-1.5, -0.5, 0.0, 0.25, 0.5, 1.0, 1.5, 2.0, 2.5]
STRS = ['', 'a', 'b', 'ab', 'Ab', 'aB', 'ba', 'a,b', 'x y', 'B']
DATES = [_dt.datetime(2020, 1, 1), _dt.datetime(2020, 2, 29, 13, 14, 15, 123000),
         _dt.datetime(2021, 6, 15, 12, 30), _dt.datetime(1969, 12, 31, 23, 59, 59, 999000),
         _dt.datetime(2000, 12, 31, 23, 0, 5), _dt.datetime(1999, 3, 1, 0, 0, 0, 1000),
         _dt.datetime(2023, 1, 1, 0, 0, 1), _dt.datetime(1900, 3, 1, 6)]
TYPES = ['num', 'str', 'bool', 'arr', 'sarr', 'date', 'doc', 'any']
NOT_IMPL = ['$range', '$reverseArray', '$indexOfArray', '$setIntersection', '$setDifference',
            '$setIsSubset', '$anyElementTrue', '$allElementsTrue', '$strLenCP', '$strLenBytes',
            '$substrCP', '$substrBytes', '$trim', '$toInt', '$toLong', '$convert', '$cmp',
            '$mergeObjects', '$isoWeek', '$stdDevPop', '$zip', '$reduce', '$indexOfCP',
            '$toDecimal', '$isoDayOfWeek', '$dateFromString']
UNKNOWN = ['$type', '$toDouble', '$toBool', '$ltrim', '$toDate', '$foo', '$setField']


class ExprGen(object):
    def __init__(self, rng, max_depth=5, anomaly=0.02, wide=0.0):
        self.r = rng
        self.max_depth = max_depth
        self.anomaly = anomaly
        self.wide = wide        # share of the numbers that come from the wide pool
        self.ops = collections.Counter()
        self.vars = {}          # variable name -> static type

    # -- documents ------------------------------------------------------------------------------
    def wide_int(self):
        """an int64 of 31 to 63 bits: a boundary value or a random one of a chosen bit length"""
        r = self.r
        if r.random() < 0.45:
            return r.choice(WIDE_INTS)
        k = r.choice(WIDE_BITS)
        n = r.getrandbits(k - 1) | (1 << (k - 2)) | (1 if r.random() < 0.6 else 0)
        return -n if r.random() < 0.3 else n

    def num(self):
        if self.wide and self.r.random() < self.wide:
            return self.wide_int()
        return self.r.choice(INTS) if self.r.random() < 0.6 else self.r.choice(FLOATS)

    def numarr(self):
        return [self.num() for _ in range(self.r.choice([0, 1, 2, 2, 3, 3]))]

    def strarr(self):
        return [self.r.choice(STRS) for _ in range(self.r.choice([0, 1, 2, 3]))]

    def anyval(self, depth=1):
        k = self.r.choice('nnbissdlLDo' if depth > 0 else 'nbissd')
        if k == 'n':
            return None
        if k == 'b':
            return self.r.random() < 0.5
        if k == 'i':
            return self.num()
        if k == 's':
            return self.r.choice(STRS)
        if k == 'd':
            return self.r.choice(DATES)
        if k == 'l':
            return self.numarr()
        if k == 'L':
            return [self.anyval(depth - 1) for _ in range(self.r.choice([0, 1, 2, 3]))]
        if k == 'o':
            return {'n': self.num()}
        return {self.r.choice('np'): self.anyval(depth - 1), 's': self.r.choice(STRS)}

    def field_value(self, f):
        if f in NUMF:
            return self.num()
        if f in STRF:
            return self.r.choice(STRS)
        if f in BOOLF:
            return self.r.random() < 0.5
        if f in ARRF:
            return self.numarr()
        if f in SARRF:
            return self.strarr()
        if f in DATEF:
            return self.r.choice(DATES)
        if f in DOCF:
            d = {}
            for k, mk in (('n', self.num), ('s', lambda: self.r.choice(STRS)), ('l', self.numarr)):
                x = self.r.random()
                if x < 0.75:
                    d[k] = mk()
                elif x < 0.85:
                    d[k] = None
            return d
        if f in QF:
            return [({'n': self.num()} if self.r.random() < 0.8 else
                     self.r.choice([{}, 5, {'p': 1}, None]))
                    for _ in range(self.r.choice([0, 1, 2, 3]))]
        return self.anyval(2)

    def set_field(self, d, f):
        x = self.r.random()
        solid = f in ARRF + SARRF + DATEF
        p_present, p_null = (0.86, 0.07) if solid else (0.68, 0.14)
        if x < p_present:
            d[f] = self.field_value(f)
        elif x < p_present + p_null:
            d[f] = None
        else:
            d.pop(f, None)

    def docs(self, k):
        fields = NUMF + STRF + BOOLF + ARRF + SARRF + DATEF + DOCF + ANYF + QF
        base = {}
        for f in fields:
            self.set_field(base, f)
        out = [base]
        for _ in range(k - 1):
            e = copy.deepcopy(self.r.choice(out))
            for f in self.r.sample(fields, self.r.choice([4, 6, 8, 10])):
                self.set_field(e, f)
            out.append(e)
        res = []
        for i, d in enumerate(out):
            o = {'_id': i}
            for f in fields:       # fixed key order
                if f in d:
                    o[f] = d[f]
            res.append(o)
        return res

    # -- expressions ----------------------------------------------------------------------------
    def op(self, name, arg):
        self.ops[name] += 1
        return {name: arg}

    def un(self, name, arg):
        """an operator that takes one argument: now and then the argument comes as a one-item
        argument list ({$abs: [x]}), rarely as a list of another length"""
        x = self.r.random()
        if x < 0.22:
            return self.op(name, [arg])
        if x < 0.235:
            return self.op(name, self.r.choice([[], [arg, arg]]))
        return self.op(name, arg)

    def vari(self, name, args):
        """an operator that takes any number of arguments: a single one may come bare"""
        if len(args) == 1 and not isinstance(args[0], list) and self.r.random() < 0.45:
            return self.op(name, args[0])
        return self.op(name, args)

    def numarg(self, d):
        """an operand of an arithmetic operator: a number, now and then a boolean (rejected)"""
        if self.r.random() < 0.05:
            return self.sub('bool', d)
        return self.sub('num', d)

    VAR_NAMES_ODD = ['V', 'a.b', '', 'CURRENT', '_x', 'x-y', '1a', '\u00e9', 'a\u00e9', 'a_1', 'aB2',
                     'this', 'ROOT', 'a b', 'v$']

    def field(self, t):
        r = self.r
        self.ops['$path'] += 1
        if t == 'num':
            return '$' + r.choice(NUMF + NUMF + NUMF + ['d.n', 'zz'])
        if t == 'str':
            return '$' + r.choice(STRF + STRF + STRF + ['d.s', 'zz'])
        if t == 'bool':
            return '$' + r.choice(BOOLF + BOOLF + BOOLF + ['zz'])
        if t == 'arr':
            return '$' + r.choice(ARRF * 5 + ['d.l', 'q.n'])
        if t == 'sarr':
            return '$' + r.choice(SARRF)
        if t == 'date':
            return '$' + r.choice(DATEF)
        if t == 'doc':
            return r.choice(['$d', '$d', '$$ROOT', '$$CURRENT', '$q.0'])
        return '$' + r.choice(ANYF * 3 + NUMF + STRF + BOOLF + ARRF + SARRF + DATEF + DOCF + QF +
                              ['zz', 'd.zz', 'a.b', 'l.0', 'l.1', 'l.-1', 'q.0.n', 'q.n', 'q.1',
                               'd.l.0', 'm.0', 'x.n', 'x.0', 'x.s'])

    def var(self, t):
        names = [n for n, vt in self.vars.items() if vt == t or t == 'any']
        if not names:
            return None
        self.ops['$$var'] += 1
        n = self.r.choice(names)
        if self.vars[n] == 'doc' and t == 'any' and self.r.random() < 0.5:
            return '$$' + n + '.n'
        return '$$' + n

    def literal(self, t):
        r = self.r
        if t == 'num':
            return self.num()
        if t == 'str':
            return r.choice(STRS)
        if t == 'bool':
            return r.random() < 0.5
        if t == 'arr':
            return self.numarr()
        if t == 'sarr':
            return self.strarr()
        if t == 'date':
            return r.choice(DATES)
        if t == 'doc':
            return {'n': self.num(), 's': r.choice(STRS)}
        x = r.random()
        if x < 0.15:
            return None
        return self.literal(r.choice(['num', 'num', 'str', 'bool', 'arr', 'date']))

    def leaf(self, t):
        x = self.r.random()
        if x < 0.12:
            v = self.var(t)
            if v is not None:
                return v
        if x < 0.72:
            return self.field(t)
        return self.literal(t)

    def expr(self, t, depth):
        """an expression of static type t and nesting depth <= depth"""
        r = self.r
        if depth <= 0 or r.random() < 0.18:
            return self.leaf(t)
        if r.random() < self.anomaly:
            return self.anomalous(t, depth)
        prods = getattr(self, 'p_' + t)
        total = sum(w for w, _ in prods)
        x = r.random() * total
        for w, fn in prods:
            x -= w
            if x < 0:
                return fn(self, depth - 1)
        return self.leaf(t)

    def sub(self, t, d):
        return self.expr(t, d)

    # generic constructions available at every type
    def g_cond(self, t, d):
        c, a, b = self.sub('bool' if self.r.random() < 0.7 else 'any', d), self.sub(t, d), \
            self.sub(t, d)
        if self.r.random() < 0.7:
            return self.op('$cond', [c, a, b])
        return self.op('$cond', {'if': c, 'then': a, 'else': b})

    def g_ifnull(self, t, d):
        if self.r.random() < 0.15:
            return self.op('$ifNull', [self.sub(t, d), self.sub(t, d), self.literal(t)])
        return self.op('$ifNull', [self.sub(t, d), self.sub(t, d) if self.r.random() < 0.3
                                   else self.literal(t)])

    def g_switch(self, t, d):
        n = self.r.choice([1, 2, 2, 3])
        br = [{'case': self.sub('bool', d), 'then': self.sub(t, d)} for _ in range(n)]
        spec = {'branches': br}
        if self.r.random() < 0.85:
            spec['default'] = self.sub(t, d)
        return self.op('$switch', spec)

    def g_let(self, t, d):
        names = self.r.sample(['v', 'w', 'p'], self.r.choice([1, 1, 2]))
        if self.r.random() < 0.07:
            names.append(self.r.choice(self.VAR_NAMES_ODD))     # some valid, most not
        vs = {}
        types = {}
        for n in names:
            vt = self.r.choice(['num', 'num', 'str', 'bool', 'arr', 'doc', 'date'])
            if self.r.random() < 0.12:
                vs[n] = self.r.choice(['$zz', '$d.zz', '$$REMOVE'])   # bound to a missing value
            else:
                vs[n] = self.sub(vt, max(d - 1, 0))
            if n in ('v', 'w', 'p'):
                types[n] = vt
        saved = dict(self.vars)
        self.vars.update(types)
        try:
            body = self.with_var_use(t, d, list(types))
        finally:
            self.vars = saved
        return self.op('$let', {'vars': vs, 'in': body})

    def with_var_use(self, t, d, names):
        """an expression that (usually) mentions one of the freshly bound variables"""
        for _ in range(4):
            e = self.sub(t, d)
            if any(('$$' + n) in repr(e) for n in names):
                return e
        return e

    def g_arrelem(self, t, d):
        at = 'sarr' if t == 'str' else 'arr'
        idx = self.r.choice([0, 0, 1, 2, -1, 5]) if self.r.random() < 0.8 else self.numarg(d)
        if self.r.random() < 0.03:
            idx = self.r.choice([True, False, '$f'])
        return self.op('$arrayElemAt', [self.sub(at, d), idx])

    def g_literal(self, t, d):
        if self.r.random() < 0.3:
            return self.op('$literal', self.r.choice(['$a', '$$ROOT', {'$add': [1, 2]}, ['$a']]))
        return self.op('$literal', self.literal(t))

    def generic(t):   # noqa: N805  (helper used while building the class body)
        return [
            (2.0, lambda s, d: s.g_cond(t, d)),
            (1.5, lambda s, d: s.g_ifnull(t, d)),
            (0.8, lambda s, d: s.g_switch(t, d)),
            (1.0, lambda s, d: s.g_let(t, d)),
            (0.3, lambda s, d: s.g_literal(t, d)),
        ]

    # -- num ------------------------------------------------------------------------------------
    def n_nary(self, d):
        op = self.r.choice(['$add', '$add', '$multiply'])
        n = self.r.choice([1, 2, 2, 2, 3])
        return self.vari(op, [self.numarg(d) for _ in range(n)])

    def n_binary(self, d):
        op = self.r.choice(['$subtract', '$subtract', '$divide', '$mod', '$pow'])
        a = self.numarg(d)
        if op == '$divide':
            b = self.r.choice([2, 4, 0.5, -2, 1, 8, 0.25]) if self.r.random() < 0.8 else \
                self.sub('num', d)
        elif op == '$mod':
            b = self.r.choice([2, 3, 1.5, -2, 0.5]) if self.r.random() < 0.8 else self.sub('num', d)
        elif op == '$pow':
            b = self.r.choice([0, 1, 2, 2, 3]) if self.r.random() < 0.9 else self.sub('num', d)
        else:
            b = self.sub('num', d)
        return self.op(op, [a, b])

    def n_unary(self, d):
        op = self.r.choice(['$abs', '$ceil', '$floor', '$trunc', '$abs', '$ceil', '$floor',
                            '$trunc', '$sqrt', '$exp', '$ln', '$log10'])
        return self.un(op, self.numarg(d))

    def n_size(self, d):
        return self.op('$size', self.sub(self.r.choice(['arr', 'arr', 'sarr']), d))

    def n_datepart(self, d):
        op = self.r.choice(['$year', '$month', '$dayOfMonth', '$hour', '$minute', '$second',
                            '$millisecond', '$dayOfWeek', '$dayOfYear', '$week'])
        return self.un(op, self.sub('date', d))

    def n_datediff(self, d):
        return self.op('$subtract', [self.sub('date', d), self.sub('date', d)])

    def n_group(self, d):
        """$sum / $avg / $min / $max / $first / $last as expression operators.  $sum and $avg give a
        number (or null) whatever their operands are, so these take operands of every type here;
        $min / $max over operands of every type are generated at type `any` (y_group)"""
        op = self.r.choice(['$sum', '$avg', '$max', '$min', '$first', '$last'])
        x = self.r.random()
        if op in ('$first', '$last'):
            if x < 0.25:
                return self.op(op, [self.sub('num', d) for _ in range(self.r.choice([0, 1, 2, 3]))])
            return self.op(op, self.field('arr'))
        if x < 0.45:
            return self.op(op, self.group_bare(mixed=op in ('$sum', '$avg')))
        n = self.r.choice([1, 2, 2, 3, 3])
        if op in ('$sum', '$avg'):
            return self.op(op, [self.group_operand(d) for _ in range(n)])
        return self.op(op, [self.sub('num', d) for _ in range(n)])

    def group_bare(self, mixed):
        """one operand that is not written as a list: mostly a field holding an array (the operator
        then ranges over its elements), now and then a scalar, null or missing one"""
        self.ops['$path'] += 1
        if not mixed:
            return '$' + self.r.choice(ARRF * 6 + ['d.l', 'q.n', 'zz', 'a'])
        return '$' + self.r.choice(ARRF * 4 + SARRF + ANYF * 3 + QF + ['d.l', 'q.n', 'zz', 'a', 's'])

    def group_operand(self, d):
        """an operand of any type: the operators skip what they do not range over"""
        y = self.r.random()
        if y < 0.45:
            return self.sub('num', d)
        if y < 0.8:
            return self.sub('any', d)
        return self.sub(self.r.choice(['str', 'bool', 'bool', 'date', 'arr']), d)

    def y_group(self, d):
        """$min / $max (their value has the type of the winning operand), $sum / $avg over
        operands of several types: numbers, strings, booleans, dates, null, missing, arrays,
        documents"""
        op = self.r.choice(['$max', '$min', '$max', '$min', '$sum', '$avg'])
        if self.r.random() < 0.35:
            return self.op(op, self.group_bare(mixed=True))
        n = self.r.choice([0, 1, 2, 2, 3, 3, 4])
        return self.op(op, [self.group_operand(d) for _ in range(n)])

    def n_strcasecmp(self, d):
        return self.op('$strcasecmp', [self.sub('str', d), self.sub('str', d)])

    p_num = generic('num') + [
        (4.0, n_nary), (3.0, n_binary), (2.5, n_unary), (1.2, n_size), (1.5, n_datepart),
        (0.5, n_datediff), (1.2, n_group), (0.6, n_strcasecmp),
        (1.0, lambda s, d: s.g_arrelem('num', d)),
        (0.8, lambda s, d: s.n_partof(d)),
    ]

    # -- str ------------------------------------------------------------------------------------
    def s_concat(self, d):
        return self.vari('$concat', [self.sub('str', d) for _ in range(self.r.choice([1, 1, 2, 2, 3]))])

    def s_case(self, d):
        return self.un(self.r.choice(['$toLower', '$toUpper']),
                       self.sub('str' if self.r.random() < 0.85 else 'num', d))

    def s_substr(self, d):
        first = self.r.choice([0, 0, 1, 2, -1]) if self.r.random() < 0.85 else self.sub('num', d)
        ln = self.r.choice([0, 1, 2, 5, -1]) if self.r.random() < 0.85 else self.sub('num', d)
        return self.op('$substr', [self.sub('str', d), first, ln])

    def s_tostring(self, d):
        return self.un('$toString', self.sub(self.r.choice(['num', 'num', 'bool', 'str', 'date']),
                                              d))

    p_str = generic('str') + [
        (3.0, s_concat), (2.0, s_case), (2.0, s_substr), (1.5, s_tostring),
        (0.8, lambda s, d: s.g_arrelem('str', d)),
    ]

    # -- bool -----------------------------------------------------------------------------------
    def b_cmp(self, d):
        op = self.r.choice(['$eq', '$ne', '$gt', '$gte', '$lt', '$lte'])
        x = self.r.random()
        if x < 0.7:
            t = self.r.choice(['num', 'num', 'num', 'str', 'str', 'date', 'bool', 'arr'])
            return self.op(op, [self.sub(t, d), self.sub(t, d)])
        if x < 0.85:
            return self.op(op, [self.sub('any', d), self.sub('any', d)])
        return self.op(op, [self.sub(self.r.choice(TYPES), d), self.sub(self.r.choice(TYPES), d)])

    def b_logic(self, d):
        op = self.r.choice(['$and', '$or'])
        n = self.r.choice([0, 1, 2, 2, 2, 3])
        return self.vari(op, [self.sub('bool' if self.r.random() < 0.7 else 'any', d)
                              for _ in range(n)])

    def b_not(self, d):
        return self.un('$not', self.sub('bool' if self.r.random() < 0.6 else 'any', d))

    def b_in(self, d):
        if self.r.random() < 0.7:
            return self.op('$in', [self.sub('num', d), self.sub('arr', d)])
        return self.op('$in', [self.sub('str', d), self.sub('sarr', d)])

    def b_is(self, d):
        return self.un(self.r.choice(['$isNumber', '$isArray']), self.sub('any', d))

    def b_seteq(self, d):
        return self.op('$setEquals', [self.sub('arr', d) for _ in range(self.r.choice([2, 2, 3]))])

    p_bool = generic('bool') + [
        (6.0, b_cmp), (3.0, b_logic), (2.0, b_not), (1.5, b_in), (1.0, b_is), (0.8, b_seteq),
    ]

    # -- arrays ---------------------------------------------------------------------------------
    def a_concat(self, d):
        n = self.r.choice([1, 2, 2, 3])
        if self.r.random() < 0.1:
            return self.op('$concatArrays', self.sub('arr', d))
        return self.op('$concatArrays', [self.sub('arr', d) for _ in range(n)])

    def a_slice(self, d):
        args = [self.sub('arr', d), self.r.choice([0, 1, 2, -1, -2, 5, 5, True])]
        if self.r.random() < 0.4:
            args.append(self.r.choice([1, 2, 3, 3, False, True]))
        return self.op('$slice', args)

    def bind(self, name, t):
        saved = dict(self.vars)
        self.vars[name] = t
        return saved

    def a_map(self, d):
        name = self.r.choice(['this', 'v', 'e'])
        if self.r.random() < 0.05:
            name = self.r.choice(self.VAR_NAMES_ODD)
        spec = {'input': self.sub('arr', d)}
        if name != 'this' or self.r.random() < 0.3:
            spec['as'] = name
        saved = self.bind(name, 'num')
        try:
            spec['in'] = self.with_var_use('num', d, [name])
        finally:
            self.vars = saved
        return self.op('$map', spec)

    def a_filter(self, d):
        name = self.r.choice(['this', 'v', 'e'])
        if self.r.random() < 0.05:
            name = self.r.choice(self.VAR_NAMES_ODD)
        spec = {'input': self.sub('arr', d)}
        if name != 'this' or self.r.random() < 0.3:
            spec['as'] = name
        saved = self.bind(name, 'num')
        try:
            spec['cond'] = self.with_var_use('bool' if self.r.random() < 0.8 else 'any', d, [name])
        finally:
            self.vars = saved
        return self.op('$filter', spec)

    def a_union(self, d):
        return self.vari('$setUnion', [self.sub('arr', d) for _ in range(self.r.choice([1, 2, 2, 3]))])

    def a_lit(self, d):
        """an array literal whose items are expressions (a missing value gives a null item)"""
        self.ops['[array]'] += 1
        n = self.r.choice([0, 1, 2, 2, 3])
        return [self.sub('num' if self.r.random() < 0.8 else 'any', d) for _ in range(n)]

    def sa_lit(self, d):
        self.ops['[array]'] += 1
        return [self.sub('str', d) for _ in range(self.r.choice([0, 1, 2, 3]))]

    def y_lit(self, d):
        """an array literal of anything, arrays and documents with expressions inside included"""
        self.ops['[array]'] += 1
        n = self.r.choice([1, 2, 2, 3])
        return [self.sub(self.r.choice(['num', 'str', 'bool', 'any', 'arr', 'doc', 'date']), d)
                for _ in range(n)]

    p_arr = generic('arr') + [(2.5, a_lit), 
        (3.0, a_concat), (2.0, a_slice), (3.0, a_map), (3.0, a_filter), (1.5, a_union),
    ]

    def sa_split(self, d):
        return self.op('$split', [self.sub('str', d), self.r.choice(['a', 'b', ',', ' ', 'ab'])
                                  if self.r.random() < 0.9 else self.sub('str', d)])

    def sa_map(self, d):
        name = self.r.choice(['this', 'v'])
        spec = {'input': self.sub('sarr', d)}
        if name != 'this':
            spec['as'] = name
        saved = self.bind(name, 'str')
        try:
            spec['in'] = self.with_var_use('str', d, [name])
        finally:
            self.vars = saved
        return self.op('$map', spec)

    p_sarr = generic('sarr') + [(3.0, sa_split), (2.0, sa_map), (1.5, sa_lit)]

    # -- date, doc, any -------------------------------------------------------------------------
    def d_sub(self, d):
        ms = self.r.choice([1000, 86400000, 1, -3600000, 0.5, 31536000000]) \
            if self.r.random() < 0.85 else self.sub('num', d)
        return self.op('$subtract', [self.sub('date', d), ms])

    def d_add(self, d):
        """a date among the operands of $add (any position), now and then two of them"""
        args = [self.sub('date', d)]
        for _ in range(self.r.choice([0, 1, 1, 2])):
            args.append(self.r.choice([1000, 86400000, 1, -3600000, 0.5, 1.5, 31536000000])
                        if self.r.random() < 0.8 else self.sub('num', d))
        self.r.shuffle(args)
        if self.r.random() < 0.08:
            args.append(self.sub('date', d))
        return self.op('$add', args)

    PART_KEYS = ['year', 'month', 'day', 'hour', 'minute', 'second', 'millisecond']
    PARTS_IN = {'year': [1, 4, 1900, 1970, 1999, 2000, 2020, 2023, 2024, 9999],
                'month': list(range(1, 13)), 'day': list(range(1, 29)),
                'hour': list(range(24)), 'minute': [0, 1, 29, 30, 59], 'second': [0, 1, 30, 59],
                'millisecond': [0, 1, 7, 123, 500, 999]}
    PARTS_EDGE = {'year': [1, 9999, 2000, 1900, 2024], 'month': [1, 2, 12], 'day': [28, 29, 30, 31],
                  'hour': [0, 23], 'minute': [0, 59], 'second': [0, 59], 'millisecond': [0, 999]}
    PARTS_OUT = {'year': [0, 10000, -1, 2 ** 31, 2 ** 40], 'month': [0, 13, 14, -1, 25],
                 'day': [0, 32, 31, 30, -1, 366], 'hour': [24, -1, 48], 'minute': [60, -1, 1440],
                 'second': [60, -1, 86400], 'millisecond': [-1, 1000, 86400000, -86400001, 1.5,
                                                            0.5, 61001, 10 ** 14]}
    PARTS_ODD = ['', 'x', True, False, 2.0, 0.0, [], [1], {}, 2 ** 31, -2 ** 31 - 1, 2 ** 63 - 1]

    def parts(self, d, mode):
        """the named arguments of $dateFromParts: in range / at the ends of the ranges / outside
        (carried by the rules) / null and missing / of odd types and names"""
        r = self.r
        spec = {}
        for k in self.PART_KEYS:
            if k != 'year' and r.random() < (0.35 if mode != 'full' else 0.0):
                continue
            pool = self.PARTS_IN
            if mode == 'edge' and r.random() < 0.7:
                pool = self.PARTS_EDGE
            spec[k] = r.choice(pool[k])
        keys = list(spec)
        if mode == 'out':
            for k in r.sample(keys, min(len(keys), r.choice([1, 1, 2]))):
                spec[k] = r.choice(self.PARTS_OUT[k])
        elif mode == 'null':
            for k in r.sample(keys, min(len(keys), r.choice([1, 1, 2]))):
                spec[k] = r.choice([None, '$zz', '$a', '$b', '$d.n', self.sub('num', d)])
        elif mode == 'field':
            for k in r.sample(keys, min(len(keys), r.choice([1, 2]))):
                spec[k] = r.choice(['$a', '$b', '$d.n', self.sub('num', d),
                                    {'$add': [r.choice(self.PARTS_IN[k]), '$a']}])
        elif mode == 'odd':
            x = r.random()
            if x < 0.3:
                spec[r.choice(keys)] = r.choice(self.PARTS_ODD)
            elif x < 0.5:
                spec[r.choice(['isoWeekYear', 'isoWeek', 'isoDayOfWeek', 'timezone', 'foo'])] = \
                    r.choice([2020, 1, 'UTC'])
            elif x < 0.6:
                del spec['year']
            elif x < 0.7:
                spec = {'date': r.choice(DATES), 'timezone': 'UTC'}
            else:
                return r.choice(['$d', '$zz', 5, None, [spec], [], '$t', {'$literal': spec}])
        if r.random() < 0.3:
            items = list(spec.items())
            r.shuffle(items)
            spec = dict(items)
        return spec

    def d_fromparts(self, d):
        mode = self.r.choice(['in', 'in', 'in', 'full', 'full', 'edge', 'edge', 'out', 'out',
                              'null', 'field', 'field', 'odd'])
        return self.op('$dateFromParts', self.parts(max(d - 1, 0), mode))

    def n_partof(self, d):
        """a date part of a date built from parts"""
        op = self.r.choice(['$year', '$month', '$dayOfMonth', '$hour', '$minute', '$second',
                            '$millisecond', '$dayOfWeek', '$dayOfYear', '$week'])
        mode = self.r.choice(['full', 'full', 'in', 'edge', 'edge', 'out', 'null', 'field'])
        return self.un(op, self.op('$dateFromParts', self.parts(max(d - 1, 0), mode)))

    p_date = generic('date') + [(3.0, d_sub), (2.5, d_add), (3.0, d_fromparts)]

    def o_lit(self, d):
        self.ops['{doc}'] += 1
        ks = self.r.sample(['n', 's', 'p', 'l'], self.r.choice([1, 2, 2, 3]))
        return {k: self.sub({'n': 'num', 's': 'str', 'p': 'any', 'l': 'arr'}[k], d) for k in ks}

    def o_a2o(self, d):
        return self.op('$arrayToObject', self.op('$literal', self.r.choice([
            [['a', 1], ['b', 2]], [{'k': 'a', 'v': 1}], [], [['a', 1], ['a', 2]],
            [{'k': 'n', 'v': 5}, {'v': 2, 'k': 'p'}]])))

    p_doc = generic('doc') + [(4.0, o_lit), (0.6, o_a2o)]

    def y_any(self, d):
        return self.sub(self.r.choice(['num', 'num', 'str', 'bool', 'arr', 'sarr', 'date', 'doc']), d)

    def y_o2a(self, d):
        return self.op('$objectToArray', self.sub('doc', d))

    p_any = [(10.0, y_any), (0.5, y_o2a), (1.2, y_group), (0.8, y_lit)]

    # -- anomalies: ill-typed, malformed, unknown, not implemented ---------------------------------
    def anomalous(self, t, d):
        r = self.r
        self.ops['<anomaly>'] += 1
        k = r.choice(['type', 'type', 'type', 'arity', 'unknown', 'notimpl', 'listarg', 'twokeys',
                      'shape', 'listlit', 'condkey'])
        d = max(d - 1, 0)
        if k == 'type':
            other = r.choice([x for x in TYPES if x != t])
            return self.expr(other, d)
        if k == 'arity':
            op = r.choice(['$subtract', '$divide', '$mod', '$pow', '$log', '$eq', '$ne', '$gt', '$lte',
                           '$cmp', '$arrayElemAt', '$in', '$split', '$substr', '$strcasecmp',
                           '$cond', '$slice', '$add', '$ifNull', '$setEquals', '$size'])
            n = r.choice([0, 1, 3, 4])
            if r.random() < 0.25:
                # a bare operand counts as one argument
                return self.op(op, self.sub(r.choice(['num', 'any', 'arr', 'doc']), d))
            # the operands are not looked at: one of them may well raise
            return self.op(op, [self.sub(r.choice(['num', 'num', 'any']), d) for _ in range(n)])
        if k == 'unknown':
            return self.op(r.choice(UNKNOWN), self.sub('any', d))
        if k == 'notimpl':
            return self.op(r.choice(NOT_IMPL), self.sub('any', d))
        if k == 'listarg':
            op = r.choice(['$not', '$abs', '$isArray', '$toLower', '$year', '$size', '$isNumber',
                           '$toString', '$first'])
            return self.op(op, [self.sub('any', d)])
        if k == 'twokeys':
            return {'$add': [1, 2], r.choice(['x', '$abs']): 1}
        if k == 'shape':
            op = r.choice(['$add', '$subtract', '$eq', '$and', '$or', '$cond', '$ifNull', '$let',
                           '$map', '$filter', '$switch', '$slice', '$concat', '$in', '$setUnion',
                           '$setEquals', '$arrayElemAt', '$split', '$sum'])
            arg = r.choice([None, 5, 'a', '$a', {'input': '$l'}, {'vars': {'v': 1}},
                            {'branches': []}, {'branches': [{'case': True}]},
                            {'input': '$l', 'in': 1, 'foo': 2}, {'vars': 5, 'in': 1}, True,
                            {'branches': [{'case': '$zz', 'then': 1}]}, []])
            return self.op(op, arg)
        if k == 'listlit':
            return [self.sub('any', d) for _ in range(r.choice([0, 1, 2]))]
        spec = {'if': self.sub('bool', d), 'then': self.sub(t, d), 'else': self.sub(t, d)}
        del spec[r.choice(['if', 'then', 'else'])]
        return self.op('$cond', spec)

    def top(self, kind=None, depths=(1, 2, 2, 3, 3, 4, 5)):
        """a whole expression; never a bare literal number / bool (inclusion flags of $project)"""
        self.vars = {}
        t = kind or self.r.choice(['num', 'num', 'num', 'str', 'str', 'bool', 'bool', 'bool', 'arr',
                                   'arr', 'sarr', 'date', 'doc', 'any'])
        depth = self.r.choice(depths)
        for _ in range(20):
            e = self.expr(t, depth)
            if isinstance(e, (dict, str)) and e != {} and e != '' and depth_of(e) <= 5:
                return e, t
        return {'$literal': 1}, t


def depth_of(e):
    """operator nesting depth: a {$op: ...} level counts 1; argument documents ({input:, in:},
    {vars: {..}}, branch lists) and literal documents / arrays are transparent"""
    if isinstance(e, dict):
        inner = max([depth_of(x) for x in e.values()] + [0])
        return inner + (1 if any(k.startswith('$') for k in e) else 0)
    if isinstance(e, list):
        return max([depth_of(x) for x in e] + [0])
    return 0
