"""(re)write the C04 entries of known_findings.json: each witness is checked on /repo and against
the oracle (driver) before it is written.  Run by hand; never at check time.

Entries repaired in the library (status "fixed": exprmissing, exprtruth, strcasecmp, numtype,
nullarg, adddate, concatstr, condkeys, undefvar, filtertruth, mapmissing, missingcmp, minmaxtypes,
sumbool, arrayliteral, boolarith, letmissing, laxargs, accbaremissing) are kept as they are; their rows in W are only
documentation.  The witness of `scalararg` is one on which the model has no answer (the code
iterates over the characters of a string): its entry is kept as it is too (KEEP)."""
import datetime as dt
import json
import os
import sys

sys.path.insert(0, os.path.dirname(os.path.abspath(__file__)))
import common  # noqa: E402
import wire  # noqa: E402
from props import c04  # noqa: E402

W = [
    ('exprmissing', 'find', {'$gt': ['$a', 0]}, {'_id': 0},
     'find({$expr: e}) raises KeyError out of find when a referenced field is missing on a '
     'document, instead of treating the value as missing (false)'),
    ('exprtruth', 'find', '$s', {'_id': 0, 's': ''},
     '$expr decides by Python truthiness: "" / [] / {} do not match although MongoDB counts '
     'every value except false, null and 0 as true'),
    ('arrayliteral', 'project', {'$not': ['$a']}, {'_id': 0, 'a': 0},
     'an array in expression position is returned unevaluated (also the one-element argument '
     'list of a unary operator): {$not: ["$a"]} is constantly false, {$concatArrays: [["$a"]]} '
     'keeps the string "$a", {$in: [1, ["$a"]]} never looks at the field'),
    ('boolnum', 'project', {'$eq': ['$a', 1]}, {'_id': 0, 'a': True},
     '$eq/$ne/$in (and comparisons inside arrays) go through Python ==, which identifies '
     'true/false with 1/0'),
    ('docorder', 'project', {'$eq': ['$d', {'y': 2, 'x': 1}]}, {'_id': 0, 'd': {'x': 1, 'y': 2}},
     'documents that differ only in field order compare equal (Python dict ==)'),
    ('missingcmp', 'project', {'$lt': ['$zz', None]}, {'_id': 0},
     'a comparison with a missing operand makes the computed field disappear instead of ordering '
     'missing below null'),
    ('strcasecmp', 'project', {'$strcasecmp': ['$s', 'ab']}, {'_id': 0, 's': 'AB'},
     '$strcasecmp compares case-sensitively'),
    ('numtype', 'project', {'$mod': ['$a', 2]}, {'_id': 0, 'a': 5},
     '$mod and $pow return floats for integer operands; $ceil/$floor/$trunc return ints for '
     'doubles'),
    ('filtertruth', 'project', {'$filter': {'input': '$l', 'cond': '$$this'}},
     {'_id': 0, 'l': ['', 'x', 0]},
     '$filter keeps items by Python truthiness ("" and [] are dropped); a missing condition '
     'value makes the whole $filter missing'),
    ('nullarg', 'project', {'$year': '$t'}, {'_id': 0, 't': None},
     'null / missing operand of the date-part operators, $arrayElemAt, $filter, $toLower, '
     '$toUpper, $toString, $strcasecmp raises AttributeError/TypeError, makes the field '
     'disappear or yields "None" instead of null / ""'),
    ('arraypath', 'project', '$l.0', {'_id': 0, 'l': [7]},
     'a numeric component of a field path that meets an array indexes it ("$l.0" on {l: [7]} is '
     '7); MongoDB takes it as the name of a field of the documents of the array ([]).  (The other '
     'half of this class - a path through an array was missing unless every element had the '
     'field - was repaired in the library by f19df5e.)'),
    ('undefvar', 'project', {'$ifNull': ['$$nope', 1]}, {'_id': 0},
     'an undefined variable is treated as missing instead of being rejected'),
    ('scalararg', 'project', {'$strcasecmp': 'ab'}, {'_id': 0},
     '$strcasecmp given a bare operand instead of a list of two iterates over it (KEEP: the '
     'model has no answer on this witness)'),
    ('boolarith', 'project', {'$add': ['$f', 1]}, {'_id': 0, 'f': True},
     'booleans count as 0/1 in arithmetic and as array indexes'),
    ('adddate', 'project', {'$add': ['$t', 1000]}, {'_id': 0, 't': dt.datetime(2020, 1, 1)},
     '$add with a date operand raises AssertionError instead of adding milliseconds'),
    ('letmissing', 'project', {'$let': {'vars': {'v': '$zz'}, 'in': 1}}, {'_id': 0},
     'a $let variable bound to a missing value makes the whole $let missing even when the '
     'variable is not used'),
    ('mapmissing', 'project', {'$map': {'input': '$l', 'in': '$zz'}}, {'_id': 0, 'l': [1]},
     'a missing `in` value makes the whole $map missing instead of a null element'),
    ('concatstr', 'project', {'$concat': ['$s', 1]}, {'_id': 0, 's': 'a'},
     '$concat applies str() to non-string operands instead of rejecting them'),
    ('condkeys', 'project', {'$cond': {'if': True, 'then': 1}}, {'_id': 0},
     'a $cond document without if/then/else raises KeyError, which is read as "missing"'),
    ('laxargs', 'project', {'$let': {'vars': {'V': 1}, 'in': '$$V'}}, {'_id': 0},
     'variable names that do not start with a lower-case letter are accepted ($let vars, `as` of '
     '$map / $filter); the other parts of this class ($ifNull with a single operand, $let / $cond '
     'with extra fields) were repaired in the library by 0c401a3'),
    ('minmaxtypes', 'project', {'$max': ['$a', 'x']}, {'_id': 0, 'a': 1},
     '$min / $max as expression operators over values of several types raise TypeError instead '
     'of ordering them by BSON type'),
    ('sumbool', 'project', {'$sum': ['$a', '$f']}, {'_id': 0, 'a': 1, 'f': True},
     '$sum / $avg as expression operators count booleans as 0 / 1 instead of ignoring them like '
     'every other value that is not a number'),
    ('accbaremissing', 'project', {'$sum': '$zz'}, {'_id': 0},
     '$sum / $avg / $min / $max given one bare operand (not a list) that is missing make the '
     'computed field missing; MongoDB answers 0 for $sum and null for the others'),
    ('partsnull', 'project', {'$dateFromParts': {'year': 2020, 'month': '$a'}}, {'_id': 0, 'a': None},
     '$dateFromParts with a part that is null or missing: month / day / hour / minute / second / '
     'millisecond take their default (`value or default`) and a null year is a TypeError; MongoDB '
     'answers null'),
    ('partszero', 'project', {'$dateFromParts': {'year': 2020, 'month': 3, 'day': 0}}, {'_id': 0},
     '$dateFromParts with month or day 0: `value or default` reads 0 as "not given" and takes 1 '
     '(the 1st of March); MongoDB carries 0 back: the last day of the month before (29 February '
     '2020), December of the year before for month 0.  "", [] and {} as a part are taken as the '
     'default too instead of being rejected'),
    ('partscarry', 'project', {'$dateFromParts': {'year': 2020, 'month': 14}}, {'_id': 0},
     '$dateFromParts with a part outside its calendar range (month 14, day 31 in April, hour 24, '
     'second 60, a negative part) raises ValueError out of datetime.datetime(); MongoDB (4.0 and '
     'later) carries the excess into the next larger unit: February 2021.  (The milliseconds are '
     'carried: they are added as a timedelta.)'),
    ('andstrict', 'project', {'$and': ['$f', {'$divide': [1, 0]}]}, {'_id': 0, 'f': False},
     '$and parses every operand (a list is built before all()): an operand that raises after '
     'the first false one makes the whole $and raise instead of being skipped'),
]


def main():
    path = os.path.join(common.VERIF, 'known_findings.json')
    data = json.load(open(path))
    fixed = {e['id'] for e in data['findings']
             if e.get('property') == 'C04' and e.get('status') == 'fixed'} | {'scalararg'}
    data['findings'] = [e for e in data['findings']
                        if e.get('property') != 'C04' or e['id'] in fixed]
    for fid, context, expr, doc, what in W:
        if fid in fixed:
            continue
        oids = wire.Oids()
        case = {'expr': expr, 'docs': [doc], 'oids': oids}
        res, stored = c04.py_eval(case)
        py = c04.py_strings(case, res, 0)[context]
        out = c04.parse_out(wire.run_driver(c04.case_lines(case, stored))[0])
        spec = out['spec_filter'] if context == 'find' else out['spec_value']
        reasons = out['filter_reasons'] if context == 'find' else out['reasons']
        assert out[context] == py, (fid, 'model differs from python', out[context], py)
        assert c04.norm(spec) != '?', (fid, 'oracle has no answer')
        assert c04.norm(py) != c04.norm(spec), (fid, 'no deviation', py, spec)
        assert fid in reasons, (fid, 'not labelled', reasons)
        data['findings'].append({
            'property': 'C04', 'id': fid, 'status': 'known', 'what': what,
            'witness': {'expr': wire.pretty(expr), 'doc': wire.pretty(doc), 'context': context,
                        'wire_expr': wire.encs(expr, oids), 'wire_doc': wire.encs(doc, oids),
                        'spec': c04.norm(spec), 'python': py, 'reasons': reasons}})
        print('%-13s %-8s py=%-22s spec=%-12s %s' % (fid, context, py, spec, reasons))
    json.dump(data, open(path, 'w'), indent=1)


if __name__ == '__main__':
    main()
