"""C19: deterministic scheduler — replays a schedule on the REAL CollectionStore / RWLock.

Real threads, but exactly one runs at a time: `mongomock.thread.threading` is replaced (while the
store is built) by a module whose Lock/RLock are cooperative objects; a worker thread stops
immediately BEFORE every lock operation it is about to perform and at every document handed out
by the `documents` generator (`hook`), and continues only when the scheduler picks it.  A schedule
is a list of thread numbers; an entry naming a finished thread or a thread whose pending
`acquire` cannot succeed is skipped; when the list is used up the lowest-numbered enabled thread
runs until none is enabled.  Start-up: thread 0 runs to its first stop, then thread 1, ...
(the model does the same: `RWLockExplore.replaySchedule`).

Outcome: 'completed' or 'deadlock' (some thread unfinished, none enabled), the exceptions
raised per (thread, call index), the final dict contents, whether all locks are free.

Iterating readers (`trace_store`, `judge_iterations`): the store under the scheduler is an instance
of a subclass made on the fly whose `documents` generator and expiry collection
(`_expire_documents` / `_value_meets_expiry`) are wrapped; the wrappers change nothing, they write
into the scheduler's log when an iteration begins, which document it hands out at every step and
when it is over, next to the entries / exits of write sections (`MonitorRWLock`) and every change
of `_documents`.  From the log the two clauses of the property about a reader that iterates are
judged on what the real code did, whatever way the library implements the iteration:
(a) from the first document an iteration hands out to the moment its consumer comes back for the
last time (to be given the next document, or to be told that there is none) no OTHER thread enters
a write section;
(b) the documents handed out are, in order, the content of the collection at one instant between
the beginning and the end of the iteration (a prefix of it when the consumer stops early).
"""
import datetime
import threading

import mongomock.thread as mthread
from mongomock import store as mstore

OLD = datetime.datetime(2000, 1, 1)
TTL_SPEC = {'key': [('t', 1)], 'expireAfterSeconds': 1}
PLAIN_SPEC = {'key': [('x', 1)]}
TIMEOUT = 30


class Boom(Exception):
    """what the consumer throws into the `documents` generator"""


class _Abort(BaseException):
    pass


class SchedulerError(Exception):
    pass


class CoopLock(object):
    def __init__(self, sched, reentrant):
        self.sched = sched
        self.reentrant = reentrant
        self.owner = None
        self.count = 0
        self.name = 'lock%d' % len(sched.locks)
        sched.locks.append(self)

    def can_acquire(self, who):
        return self.count == 0 or (self.reentrant and self.owner == who)

    def acquire(self, blocking=True, timeout=-1):
        who = self.sched.hook(('acq', self))
        if self.sched.aborting:
            return True
        if not self.can_acquire(who):
            if who is None:
                raise SchedulerError('setup code would block on ' + self.name)
            raise SchedulerError('scheduled a thread whose acquire cannot succeed')
        self.owner = who if self.reentrant else None
        self.count += 1
        return True

    def release(self):
        who = self.sched.hook(('rel', self))
        if self.sched.aborting:
            return
        if self.count == 0 or (self.reentrant and self.owner != who):
            raise RuntimeError('cannot release un-acquired lock')
        self.count -= 1
        if self.count == 0:
            self.owner = None

    __enter__ = acquire

    def __exit__(self, *a):
        self.release()


class MonitorRWLock(object):
    """wraps the store's RWLock: counts the threads inside reader / writer sections and records a
    violation when a writer is inside together with anybody else"""

    def __init__(self, inner, sched):
        self._inner = inner
        self._sched = sched

    def __getattr__(self, name):
        return getattr(self._inner, name)

    def _section(self, w):
        import contextlib

        @contextlib.contextmanager
        def cm():
            with (self._inner.writer() if w else self._inner.reader()):
                s = self._sched
                if w:
                    s.writers_inside += 1
                else:
                    s.readers_inside += 1
                if s.writers_inside > 1 or (s.writers_inside and s.readers_inside):
                    s.exclusion_violated = True
                if w:
                    s.event('write-enter')
                try:
                    yield
                finally:
                    if w:
                        s.writers_inside -= 1
                        s.event('write-exit')
                    else:
                        s.readers_inside -= 1
        return cm()

    def reader(self):
        return self._section(False)

    def writer(self):
        return self._section(True)


class CoopThreading(object):
    def __init__(self, sched):
        self._sched = sched

    def Lock(self):
        return CoopLock(self._sched, False)

    def RLock(self):
        return CoopLock(self._sched, True)

    def __getattr__(self, name):
        return getattr(threading, name)


class Worker(object):
    def __init__(self, idx):
        self.idx = idx
        self.go = threading.Semaphore(0)
        self.pending = None
        self.finished = False
        self.thread = None
        self.events = []          # (call index, exception name)
        self.answers = []         # (call index, what `discard` returned)
        self.lock_steps = []      # global step numbers of its lock operations


class Scheduler(object):
    def __init__(self):
        self.locks = []
        self.workers = []
        self.by_ident = {}
        self.ctl = threading.Semaphore(0)
        self.aborting = False
        self.steps = 0
        self.trace = []
        self.readers_inside = 0
        self.writers_inside = 0
        self.exclusion_violated = False
        self.store = None         # the traced store (trace_store)
        self.states = []          # [(position in trace, ((key, id(doc)), ...), [docs], [copies])]
        self.iterations = []      # [Iteration]

    # ---- called from worker threads -------------------------------------------------------
    def hook(self, op):
        """stop before `op`; returns the worker index (None for non-worker threads)"""
        w = self.by_ident.get(threading.get_ident())
        if w is None:
            return None
        if self.aborting:
            return w.idx
        w.pending = op
        self.ctl.release()
        w.go.acquire()
        if self.aborting:
            raise _Abort()
        w.pending = None
        self.steps += 1
        self.snapshot()
        if op[0] in ('acq', 'rel'):
            w.lock_steps.append(self.steps)
            self.trace.append((w.idx, op[0], op[1].name))
        else:
            self.trace.append((w.idx, op[0]))
        return w.idx

    def me(self):
        w = self.by_ident.get(threading.get_ident())
        return None if w is None else w.idx

    def snapshot(self):
        """note the content of the traced store when it differs from the last one noted (exactly
        one thread runs at a time, so reading the dict here is safe)"""
        st = self.store
        if st is None or self.aborting:
            return
        docs = list(st._documents.items())
        cur = tuple((k, id(d)) for k, d in docs)
        if not self.states or self.states[-1][1] != cur:
            # the documents themselves (kept alive: their identities stay theirs) and what they
            # held at that time (shallow copies: the values keep their identities)
            self.states.append((len(self.trace), cur, [d for _, d in docs],
                                [dict(d) if isinstance(d, dict) else d for _, d in docs]))
            self.trace.append((self.me(), 'state', [k for k, _ in docs]))

    def event(self, kind, *extra):
        """an observation about an iteration / a write section, in the order things happened"""
        if self.aborting or self.store is None:
            return
        self.snapshot()
        self.trace.append((self.me(), kind) + extra)

    # ---- called from the controlling thread ---------------------------------------------------
    def build_store(self, docs0, idx0, ttl0, expired):
        orig = mthread.threading
        mthread.threading = CoopThreading(self)
        try:
            st = mstore.CollectionStore('c19')
        finally:
            mthread.threading = orig
        st._rwlock = MonitorRWLock(st._rwlock, self)
        for k in docs0:
            st._documents[k] = make_doc(k, expired)
        for n in idx0:
            st.indexes['i%d' % n] = dict(TTL_SPEC if n in ttl0 else PLAIN_SPEC)
        for n in ttl0:
            st._ttl_indexes['i%d' % n] = dict(TTL_SPEC)
        return st

    def add_worker(self, body):
        w = Worker(len(self.workers))

        def main():
            self.by_ident[threading.get_ident()] = w
            w.go.acquire()
            try:
                if not self.aborting:
                    body(w)
            except _Abort:
                pass
            finally:
                w.finished = True
                self.ctl.release()
        w.thread = threading.Thread(target=main, name='c19-worker-%d' % w.idx)
        w.thread.daemon = True
        self.workers.append(w)
        return w

    def enabled(self, t):
        w = self.workers[t]
        if w.finished:
            return False
        op = w.pending
        if op is None:
            return True
        if op[0] == 'acq':
            return op[1].can_acquire(t)
        return True

    def run_thread(self, t):
        w = self.workers[t]
        w.go.release()
        if not self.ctl.acquire(timeout=TIMEOUT):
            raise SchedulerError('thread %d did not reach a stop within %ds' % (t, TIMEOUT))

    def run(self, schedule):
        for w in self.workers:
            w.thread.start()
        for t in range(len(self.workers)):
            self.run_thread(t)
        used = []
        for t in schedule:
            if 0 <= t < len(self.workers) and self.enabled(t):
                self.run_thread(t)
                used.append(t)
        while True:
            ts = [t for t in range(len(self.workers)) if self.enabled(t)]
            if not ts:
                break
            self.run_thread(ts[0])
            used.append(ts[0])
        status = 'completed' if all(w.finished for w in self.workers) else 'deadlock'
        blocked = [(w.idx, w.pending[0], w.pending[1].name) for w in self.workers
                   if not w.finished and w.pending]
        if status == 'deadlock':
            self.aborting = True
            for w in self.workers:
                if not w.finished:
                    w.go.release()
            for w in self.workers:
                w.thread.join(TIMEOUT)
        else:
            for w in self.workers:
                w.thread.join(TIMEOUT)
        return status, used, blocked

    def overlap(self):
        """two threads were at once between their first and last lock operation"""
        iv = [(w.lock_steps[0], w.lock_steps[-1]) for w in self.workers if len(w.lock_steps) > 1]
        for i in range(len(iv)):
            for j in range(i + 1, len(iv)):
                if iv[i][0] < iv[j][1] and iv[j][0] < iv[i][1]:
                    return True
        return False


# ---------------------------------------------------------------------------------------------
# iterating readers: tracing wrappers and the judgement of clauses (a) and (b)

class Iteration(object):
    def __init__(self, num, what):
        self.num = num
        self.what = what          # 'documents' | 'expiry collection'
        self.thread = None
        self.begin = None         # positions in the trace
        self.first = None
        self.last = None
        self.resumed = None       # the last time the consumer asked for the next document
        self.end = None
        self.how = None           # 'exhausted' | 'thrown' | 'closed' (None: never finished)
        self.state0 = None        # index in sched.states of the content when it began
        self.state1 = None        # ... when it was over
        self.handed = []          # [(label, identity)] in the order handed out
        self.field = None         # expiry collection: the field looked at


def _doc_key(doc):
    try:
        return doc.get('_id')
    except Exception:  # pylint: disable=broad-except
        return repr(doc)


def trace_store(sched, st, hook_steps):
    """make `st` an instance of a subclass (created here) of its own class whose iterating
    readers report to the scheduler's log.  hook_steps: the wrappers are also switch points (one
    scheduler step per document); False when the consumer itself stops at every document."""
    base = type(st)

    def begin(what):
        it = Iteration(len(sched.iterations), what)
        sched.iterations.append(it)
        it.thread = sched.me()
        sched.event('iter-begin', it.num, what)
        it.begin = len(sched.trace) - 1
        it.state0 = len(sched.states) - 1
        return it

    def step(it, label, ident):
        sched.event('iter-doc', it.num, label)
        pos = len(sched.trace) - 1
        if it.first is None:
            it.first = pos
        it.last = pos
        it.handed.append((label, ident))
        if hook_steps:
            sched.hook(('yield',))

    def resume(it):
        """the consumer is back: the iterating code goes on from the document it handed out"""
        sched.event('iter-resume', it.num)
        it.resumed = len(sched.trace) - 1

    def finish(it, how):
        if sched.aborting:
            return
        it.how = how
        sched.event('iter-end', it.num, how)
        it.end = len(sched.trace) - 1
        it.state1 = len(sched.states) - 1

    def traced_documents(inner):
        it = begin('documents')
        how = 'exhausted'
        try:
            try:
                doc = next(inner)
            except StopIteration:
                return
            while True:
                step(it, _doc_key(doc), id(doc))
                try:
                    yield doc
                except GeneratorExit:
                    how = 'closed'
                    resume(it)
                    inner.close()
                    raise
                except BaseException as exc:  # pylint: disable=broad-except
                    how = 'thrown'
                    resume(it)
                    try:
                        doc = inner.throw(exc)
                    except StopIteration:
                        return
                else:
                    resume(it)
                    try:
                        doc = next(inner)
                    except StopIteration:
                        return
        except _Abort:
            how = None
            raise
        finally:
            if how is not None:
                finish(it, how)

    current = {}                  # thread -> the expiry collection it is inside

    class Traced(base):
        @property
        def documents(self):
            return traced_documents(base.documents.fget(self))

        def _expire_documents(self, index):
            it = begin('expiry collection')
            try:
                it.field = next(iter(index['key']))[0]
            except Exception:  # pylint: disable=broad-except
                it.field = None
            me = sched.me()
            outer = current.get(me)
            current[me] = it
            try:
                return base._expire_documents(self, index)
            finally:
                current[me] = outer
                finish(it, 'exhausted')

        def _value_meets_expiry(self, val, *args, **kwargs):
            it = current.get(sched.me())
            if it is not None:
                step(it, 'value %r' % (val,), id(val))
                resume(it)
            return base._value_meets_expiry(self, val, *args, **kwargs)

    Traced.__name__ = base.__name__
    st.__class__ = Traced
    sched.store = st
    sched.snapshot()
    return st


def judge_iterations(sched):
    """[{'clause', 'what', 'iteration', ...}]: what in the log contradicts clause (a) / (b)"""
    out = []
    trace = sched.trace
    for it in sched.iterations:
        if it.first is None and not (it.what == 'documents' and it.how == 'exhausted'):
            continue              # (an expiry pass that looks at no document: nothing to judge)
        desc = {'number': it.num, 'of': it.what, 'thread': it.thread, 'ended': it.how,
                'handed_out': [h[0] for h in it.handed]}
        # (a) no other thread enters a write section while the iteration is under way: from the
        # first document it hands out to the last time the consumer comes back for the next one.
        # (Once the iterating code runs again after its last document, the reader may leave its
        # section before the consumer learns that there is no more.)
        hi = max(it.last or 0, it.resumed or 0)
        intruders = [(pos, trace[pos][0]) for pos in range(it.first, hi + 1)
                     if trace[pos][1] == 'write-enter' and trace[pos][0] != it.thread
                     ] if it.first is not None else []
        if intruders:
            pos, who = intruders[0]
            out.append({'clause': 'a', 'iteration': desc,
                        'what': 'thread %d entered a write section while thread %d was in the '
                                'middle of iterating (%s): %d document(s) handed out before, %d '
                                'after; writers must exclude a reader that is iterating'
                                % (who, it.thread, it.what,
                                   len([1 for q in range(it.first, pos) if trace[q][1] ==
                                        'iter-doc' and trace[q][2] == it.num]),
                                   len([1 for q in range(pos, hi + 1) if trace[q][1] ==
                                        'iter-doc' and trace[q][2] == it.num])),
                        'writer_thread': who, 'position_in_log': pos,
                        'write_sections_entered_by_others_during_iteration': len(intruders)})
        # (b) what was handed out is the content at one instant of the iteration's lifetime
        if it.how is None or it.state0 is None:
            continue
        cands = sched.states[it.state0:(it.state1 if it.state1 is not None
                                        else len(sched.states) - 1) + 1]
        handed = [h[1] for h in it.handed]

        def project(state):
            _, cur, _, held = state
            if it.what == 'documents':
                return [ident for _, ident in cur]
            vals = []
            for d in held:
                try:
                    vals.append(id(d.get(it.field)))
                except Exception:  # pylint: disable=broad-except
                    vals.append(None)
            return vals
        ok = False
        for stt in cands:
            proj = project(stt)
            if it.how == 'exhausted' and it.what == 'documents':
                ok = proj == handed
            elif it.what == 'documents':
                ok = proj[:len(handed)] == handed
            else:
                ok = proj == handed
            if ok:
                break
        if not ok:
            out.append({'clause': 'b', 'iteration': desc,
                        'what': 'the %s of thread %d handed out %r (%s), which is the content of '
                                'the collection at NO instant between its beginning and its end; '
                                'the collection went through: %s'
                                % (it.what, it.thread, [h[0] for h in it.handed], it.how,
                                   ' -> '.join(str([k for k, _ in c[1]]) for c in cands)),
                        'states_during_iteration': [[k for k, _ in c[1]] for c in cands]})
    return out


def lock_names(st):
    """{'lock3': '_no_writers', ...} for the cooperative locks of the store's RWLock"""
    names = {}
    rw = getattr(st._rwlock, '_inner', st._rwlock)
    for attr, val in vars(rw).items():
        if isinstance(val, CoopLock):
            names[val.name] = attr
        else:
            for a2, v2 in getattr(val, '__dict__', {}).items():
                if isinstance(v2, CoopLock):
                    names[v2.name] = '%s.%s' % (attr, a2)
    return names


def story(sched, st=None, mark=None):
    """the log as text lines: which thread did what, in order (lock operations of one thread in a
    row are put on one line)"""
    names = lock_names(st) if st is not None else {}
    lines = []
    run = None                    # (thread, [ops])

    def flush():
        if run is not None:
            lines.append('T%s: %s' % (run[0], ', '.join(run[1])))
    for pos, e in enumerate(sched.trace):
        who, kind = e[0], e[1]
        if kind in ('acq', 'rel'):
            op = '%s %s' % ('acquire' if kind == 'acq' else 'release', names.get(e[2], e[2]))
            if run is not None and run[0] == who:
                run[1].append(op)
            else:
                flush()
                run = (who, [op])
            continue
        flush()
        run = None
        pre = 'T%s: ' % (who,) if who is not None else 'setup: '
        if kind in ('yield', 'iter-resume'):
            continue
        if kind == 'state':
            text = '    _documents is now %r' % (e[2],)
            pre = ''
        elif kind == 'iter-begin':
            text = 'iteration #%d begins (%s)' % (e[2], e[3])
        elif kind == 'iter-doc':
            text = 'iteration #%d hands out %s' % (e[2], e[3] if isinstance(e[3], str)
                                                    else 'the document with _id %r' % (e[3],))
        elif kind == 'iter-end':
            text = 'iteration #%d is over (%s)' % (e[2], e[3])
        elif kind == 'write-enter':
            text = 'ENTERS a write section'
        elif kind == 'write-exit':
            text = 'leaves the write section'
        else:
            text = ' '.join(str(x) for x in e[1:])
        if mark is not None and pos == mark:
            text += '      <=== here'
        lines.append(pre + text)
    flush()
    return lines


def make_doc(k, expired):
    # every expired document has a `t` of its own: the expiry collection is traced by the values
    # it looks at
    return {'_id': k, 't': OLD + datetime.timedelta(seconds=k)} if k in expired else {'_id': k}


def exc_name(e):
    if isinstance(e, Boom):
        return 'Thrown'
    if isinstance(e, KeyError):
        return 'KeyError'
    if isinstance(e, RuntimeError):
        return 'RuntimeError'
    return type(e).__name__


def do_call(sched, st, call, expired):
    m, k, thr = call
    if m == 'contains':
        k in st  # pylint: disable=pointless-statement
    elif m == 'getItem':
        st[k]  # pylint: disable=pointless-statement
    elif m == 'setItem':
        st[k] = make_doc(k, expired)
    elif m == 'delItem':
        del st[k]
    elif m == 'discard':
        # what Collection._delete removes a document with: tells whether there was one
        return st.discard(k)
    elif m == 'len':
        len(st)
    elif m == 'isEmpty':
        st.is_empty  # pylint: disable=pointless-statement
    elif m == 'documents':
        it = st.documents
        i = 0
        while True:
            try:
                next(it)
            except StopIteration:
                break
            i += 1
            sched.hook(('yield',))
            if i == thr:
                it.throw(Boom())
    elif m == 'expireDocuments':
        st._expire_documents(dict(TTL_SPEC))
    elif m == 'removeExpired':
        st._remove_expired_documents()
    elif m == 'createIndex':
        st.create_index('i%d' % k, dict(PLAIN_SPEC))
    elif m == 'createIndexTtl':
        st.create_index('i%d' % k, dict(TTL_SPEC))
    elif m == 'dropIndex':
        st.drop_index('i%d' % k)
    else:
        raise SchedulerError('unknown call ' + m)


def replay(scenario, schedule, with_story=False):
    """scenario = {'docs0','idx0','ttl0','expired': lists of ints, 'progs': [[(m,key,throwAt)]]}
    returns the outcome dict ('story': the log as text, when asked for or when something is
    wrong)"""
    sched = Scheduler()
    st = sched.build_store(scenario['docs0'], scenario['idx0'], scenario['ttl0'],
                           scenario['expired'])
    expired = set(scenario['expired'])
    trace_store(sched, st, hook_steps=False)

    def body_for(prog):
        def body(w):
            for ci, call in enumerate(prog):
                try:
                    r = do_call(sched, st, call, expired)
                    if call[0] == 'discard':
                        w.answers.append((ci, r))
                except Exception as e:  # pylint: disable=broad-except
                    w.events.append((ci, exc_name(e)))
                    sched.event('call %d (%s) raises' % (ci, call[0]), exc_name(e))
        return body
    for prog in scenario['progs']:
        sched.add_worker(body_for(prog))
    status, used, blocked = sched.run(schedule)
    events = sorted((w.idx, ci, name) for w in sched.workers for (ci, name) in w.events)

    def ids(names):
        return [int(n[1:]) for n in names]
    verdicts = judge_iterations(sched) if status == 'completed' else []
    rw = st._rwlock._inner
    counters = [getattr(getattr(rw, a, None), '_counter', None)
                for a in ('_read_switch', '_write_switch')]
    free = all(l.count == 0 for l in sched.locks) and all(c in (0, None) for c in counters)
    answers = sorted((w.idx, ci, r) for w in sched.workers for (ci, r) in w.answers)
    return {'status': status, 'events': events,
            # the discards that said they removed a document / that answered something that is
            # not a truth value at all
            'removed': [[t, ci] for (t, ci, r) in answers if r is True],
            'odd_answers': [[t, ci, repr(r)] for (t, ci, r) in answers
                            if r is not True and r is not False],
            'docs': list(st._documents.keys()), 'idx': ids(st.indexes.keys()),
            'ttl': ids(st._ttl_indexes.keys()), 'free': free, 'overlap': sched.overlap(),
            'excl': sched.exclusion_violated,
            'iter': verdicts,
            'iterations': len([it for it in sched.iterations if it.first is not None]),
            'story': (story(sched, st) if with_story or verdicts or events
                      or status != 'completed' or sched.exclusion_violated else None),
            'used': used, 'blocked': blocked, 'lock_ops': len([x for x in sched.trace
                                                               if x[0] is not None and
                                                               x[1] in ('acq', 'rel')])}
