"""C19: deterministic scheduler — replays a schedule on the REAL CollectionStore / RWLock.

Real threads, but exactly one runs at a time: `mongomock.thread.threading` is replaced (while the
store is built) by a module whose Lock/RLock are cooperative objects; a worker thread stops
immediately BEFORE every lock operation it is about to perform and at every document handed out
by the `documents` generator (`hook`), and continues only when the scheduler picks it.  A schedule
is a list of thread numbers; an entry naming a finished thread or a thread whose pending
`acquire` cannot succeed is skipped; when the list is used up the lowest-numbered enabled thread
runs until none is enabled.  Start-up: thread 0 runs to its first stop, then thread 1, ...
(the model does the same: `RWLockExplore.replaySchedule`).

Outcome: 'completed' or 'deadlock' (some thread unfinished, none enabled), the exceptions
raised per (thread, call index), the final dict contents, whether all locks are free.
"""
import datetime
import threading

import mongomock.thread as mthread
from mongomock import store as mstore

OLD = datetime.datetime(2000, 1, 1)
TTL_SPEC = {'key': [('t', 1)], 'expireAfterSeconds': 1}
PLAIN_SPEC = {'key': [('x', 1)]}
TIMEOUT = 30


class Boom(Exception):
    """what the consumer throws into the `documents` generator"""


class _Abort(BaseException):
    pass


class SchedulerError(Exception):
    pass


class CoopLock(object):
    def __init__(self, sched, reentrant):
        self.sched = sched
        self.reentrant = reentrant
        self.owner = None
        self.count = 0
        self.name = 'lock%d' % len(sched.locks)
        sched.locks.append(self)

    def can_acquire(self, who):
        return self.count == 0 or (self.reentrant and self.owner == who)

    def acquire(self, blocking=True, timeout=-1):
        who = self.sched.hook(('acq', self))
        if self.sched.aborting:
            return True
        if not self.can_acquire(who):
            if who is None:
                raise SchedulerError('setup code would block on ' + self.name)
            raise SchedulerError('scheduled a thread whose acquire cannot succeed')
        self.owner = who if self.reentrant else None
        self.count += 1
        return True

    def release(self):
        who = self.sched.hook(('rel', self))
        if self.sched.aborting:
            return
        if self.count == 0 or (self.reentrant and self.owner != who):
            raise RuntimeError('cannot release un-acquired lock')
        self.count -= 1
        if self.count == 0:
            self.owner = None

    __enter__ = acquire

    def __exit__(self, *a):
        self.release()


class MonitorRWLock(object):
    """wraps the store's RWLock: counts the threads inside reader / writer sections and records a
    violation when a writer is inside together with anybody else"""

    def __init__(self, inner, sched):
        self._inner = inner
        self._sched = sched

    def __getattr__(self, name):
        return getattr(self._inner, name)

    def _section(self, w):
        import contextlib

        @contextlib.contextmanager
        def cm():
            with (self._inner.writer() if w else self._inner.reader()):
                s = self._sched
                if w:
                    s.writers_inside += 1
                else:
                    s.readers_inside += 1
                if s.writers_inside > 1 or (s.writers_inside and s.readers_inside):
                    s.exclusion_violated = True
                try:
                    yield
                finally:
                    if w:
                        s.writers_inside -= 1
                    else:
                        s.readers_inside -= 1
        return cm()

    def reader(self):
        return self._section(False)

    def writer(self):
        return self._section(True)


class CoopThreading(object):
    def __init__(self, sched):
        self._sched = sched

    def Lock(self):
        return CoopLock(self._sched, False)

    def RLock(self):
        return CoopLock(self._sched, True)

    def __getattr__(self, name):
        return getattr(threading, name)


class Worker(object):
    def __init__(self, idx):
        self.idx = idx
        self.go = threading.Semaphore(0)
        self.pending = None
        self.finished = False
        self.thread = None
        self.events = []          # (call index, exception name)
        self.lock_steps = []      # global step numbers of its lock operations


class Scheduler(object):
    def __init__(self):
        self.locks = []
        self.workers = []
        self.by_ident = {}
        self.ctl = threading.Semaphore(0)
        self.aborting = False
        self.steps = 0
        self.trace = []
        self.readers_inside = 0
        self.writers_inside = 0
        self.exclusion_violated = False

    # ---- called from worker threads -------------------------------------------------------
    def hook(self, op):
        """stop before `op`; returns the worker index (None for non-worker threads)"""
        w = self.by_ident.get(threading.get_ident())
        if w is None:
            return None
        if self.aborting:
            return w.idx
        w.pending = op
        self.ctl.release()
        w.go.acquire()
        if self.aborting:
            raise _Abort()
        w.pending = None
        self.steps += 1
        if op[0] in ('acq', 'rel'):
            w.lock_steps.append(self.steps)
            self.trace.append((w.idx, op[0], op[1].name))
        else:
            self.trace.append((w.idx, op[0]))
        return w.idx

    # ---- called from the controlling thread ---------------------------------------------------
    def build_store(self, docs0, idx0, ttl0, expired):
        orig = mthread.threading
        mthread.threading = CoopThreading(self)
        try:
            st = mstore.CollectionStore('c19')
        finally:
            mthread.threading = orig
        st._rwlock = MonitorRWLock(st._rwlock, self)
        for k in docs0:
            st._documents[k] = make_doc(k, expired)
        for n in idx0:
            st.indexes['i%d' % n] = dict(TTL_SPEC if n in ttl0 else PLAIN_SPEC)
        for n in ttl0:
            st._ttl_indexes['i%d' % n] = dict(TTL_SPEC)
        return st

    def add_worker(self, body):
        w = Worker(len(self.workers))

        def main():
            self.by_ident[threading.get_ident()] = w
            w.go.acquire()
            try:
                if not self.aborting:
                    body(w)
            except _Abort:
                pass
            finally:
                w.finished = True
                self.ctl.release()
        w.thread = threading.Thread(target=main, name='c19-worker-%d' % w.idx)
        w.thread.daemon = True
        self.workers.append(w)
        return w

    def enabled(self, t):
        w = self.workers[t]
        if w.finished:
            return False
        op = w.pending
        if op is None:
            return True
        if op[0] == 'acq':
            return op[1].can_acquire(t)
        return True

    def run_thread(self, t):
        w = self.workers[t]
        w.go.release()
        if not self.ctl.acquire(timeout=TIMEOUT):
            raise SchedulerError('thread %d did not reach a stop within %ds' % (t, TIMEOUT))

    def run(self, schedule):
        for w in self.workers:
            w.thread.start()
        for t in range(len(self.workers)):
            self.run_thread(t)
        used = []
        for t in schedule:
            if 0 <= t < len(self.workers) and self.enabled(t):
                self.run_thread(t)
                used.append(t)
        while True:
            ts = [t for t in range(len(self.workers)) if self.enabled(t)]
            if not ts:
                break
            self.run_thread(ts[0])
            used.append(ts[0])
        status = 'completed' if all(w.finished for w in self.workers) else 'deadlock'
        blocked = [(w.idx, w.pending[0], w.pending[1].name) for w in self.workers
                   if not w.finished and w.pending]
        if status == 'deadlock':
            self.aborting = True
            for w in self.workers:
                if not w.finished:
                    w.go.release()
            for w in self.workers:
                w.thread.join(TIMEOUT)
        else:
            for w in self.workers:
                w.thread.join(TIMEOUT)
        return status, used, blocked

    def overlap(self):
        """two threads were at once between their first and last lock operation"""
        iv = [(w.lock_steps[0], w.lock_steps[-1]) for w in self.workers if len(w.lock_steps) > 1]
        for i in range(len(iv)):
            for j in range(i + 1, len(iv)):
                if iv[i][0] < iv[j][1] and iv[j][0] < iv[i][1]:
                    return True
        return False


def make_doc(k, expired):
    return {'_id': k, 't': OLD} if k in expired else {'_id': k}


def exc_name(e):
    if isinstance(e, Boom):
        return 'Thrown'
    if isinstance(e, KeyError):
        return 'KeyError'
    if isinstance(e, RuntimeError):
        return 'RuntimeError'
    return type(e).__name__


def do_call(sched, st, call, expired):
    m, k, thr = call
    if m == 'contains':
        k in st  # pylint: disable=pointless-statement
    elif m == 'getItem':
        st[k]  # pylint: disable=pointless-statement
    elif m == 'setItem':
        st[k] = make_doc(k, expired)
    elif m == 'delItem':
        del st[k]
    elif m == 'len':
        len(st)
    elif m == 'isEmpty':
        st.is_empty  # pylint: disable=pointless-statement
    elif m == 'documents':
        it = st.documents
        i = 0
        while True:
            try:
                next(it)
            except StopIteration:
                break
            i += 1
            sched.hook(('yield',))
            if i == thr:
                it.throw(Boom())
    elif m == 'expireDocuments':
        st._expire_documents(dict(TTL_SPEC))
    elif m == 'removeExpired':
        st._remove_expired_documents()
    elif m == 'createIndex':
        st.create_index('i%d' % k, dict(PLAIN_SPEC))
    elif m == 'createIndexTtl':
        st.create_index('i%d' % k, dict(TTL_SPEC))
    elif m == 'dropIndex':
        st.drop_index('i%d' % k)
    else:
        raise SchedulerError('unknown call ' + m)


def replay(scenario, schedule):
    """scenario = {'docs0','idx0','ttl0','expired': lists of ints, 'progs': [[(m,key,throwAt)]]}
    returns the outcome dict"""
    sched = Scheduler()
    st = sched.build_store(scenario['docs0'], scenario['idx0'], scenario['ttl0'],
                           scenario['expired'])
    expired = set(scenario['expired'])

    def body_for(prog):
        def body(w):
            for ci, call in enumerate(prog):
                try:
                    do_call(sched, st, call, expired)
                except Exception as e:  # pylint: disable=broad-except
                    w.events.append((ci, exc_name(e)))
        return body
    for prog in scenario['progs']:
        sched.add_worker(body_for(prog))
    status, used, blocked = sched.run(schedule)
    events = sorted((w.idx, ci, name) for w in sched.workers for (ci, name) in w.events)

    def ids(names):
        return [int(n[1:]) for n in names]
    rw = st._rwlock._inner
    counters = [getattr(getattr(rw, a, None), '_counter', None)
                for a in ('_read_switch', '_write_switch')]
    free = all(l.count == 0 for l in sched.locks) and all(c in (0, None) for c in counters)
    return {'status': status, 'events': events,
            'docs': list(st._documents.keys()), 'idx': ids(st.indexes.keys()),
            'ttl': ids(st._ttl_indexes.keys()), 'free': free, 'overlap': sched.overlap(),
            'excl': sched.exclusion_violated,
            'used': used, 'blocked': blocked, 'lock_ops': len([x for x in sched.trace
                                                               if x[0] is not None and
                                                               x[1] in ('acq', 'rel')])}
