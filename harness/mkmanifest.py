"""Regenerates /verif/MANIFEST.json from the table below (development helper; the checks never
call it).  A property appears under `checks` only when its core theorems build without sorry;
everything else is listed under `not_applicable` with the reason."""
import json
import os

VERIF = os.path.dirname(os.path.dirname(os.path.abspath(__file__)))

NOTE = ('Trusted: Lean 4.33 kernel; axioms propext, Classical.choice, Quot.sound only (audited '
        'per theorem on every run; no native_decide / bv_decide / sorry / own axioms); the Spec/* '
        'definitions as the rendering of the rule the property states; the hand-written model '
        '(MongoModel/*) is tied to /repo only by the per-run differential correspondence '
        '(generators\' reach is measured in the evidence). ')

CLAIMED = {
    'C01': dict(
        technique='Lean 4 theorems about a hand-written model of the matcher (Impl = Spec on a '
                  'decidable domain D, plus unconditional negation/connective laws), tied to the '
                  'code by a differential correspondence run',
        text='Lean 4 theorems, for all filters and documents (structural induction over the nested '
             'value type): on the decidable domain D (Spec.inD; its negation is the list of named '
             'exclusion classes, each a known finding with a replayed witness or a scope limit) the '
             'model of _Filterer.apply answers exactly what the matching rules of the property '
             '(Spec.specMatches) say and never raises; for ALL inputs $ne = not $eq, $nin = not '
             '$in, $not = negation when the path reaches something, $and/$or/$nor are conjunction/'
             'disjunction/negated disjunction, ordering operators never relate different type '
             'classes, null equality matches a missing field. The full-strength statement is proved '
             'false of the code on a concrete witness (bool/number conflation). The model is tied '
             'to /repo by running find()/filter_applies and the compiled model on the same '
             'generated (filter, documents) cases on every run; a disagreement with the rules on a '
             'concrete input is the violation replay.',
        note='Outside F ($expr, non-literal $regex, $options, negative indexes, uuid/bytes/'
             'Decimal128) nothing is claimed.'),
    'C08': dict(
        technique='Lean 4 theorems over the collection state machine (failed single write = '
                  'observational identity; insert_many = fold of single inserts), tied to the code '
                  'by history correspondence and a twin-collection oracle',
        text='Lean 4 theorems about the model of the collection (MongoModel.step, all states, all '
             'operations of the modelled language, any clock): a single-document write (insert_one, '
             'update_one, replace_one, delete_one) whose outcome is an error leaves what a client '
             'can observe (documents after the lazy TTL pass, index names) and the index tables '
             'exactly as before, wherever in the update specification the failing part sits; '
             'validation precedes mutation; an unordered insert_many ends in the state of issuing '
             'its inserts one at a time, an ordered one in that of a prefix, and the error reports '
             'the failing position = number of successes. Tie: generated histories with ~40% '
             'failing writes run on /repo and on the compiled model step by step (outcome, full '
             'state), plus directly on python: state unchanged after a raise, insert_many compared '
             'with one-at-a-time inserts on a twin collection.',
        note='update_many document granularity and bulk_write are covered by the correspondence '
             'only (bulk_write theorems belong to C15); positional $ paths are unmodelled.'),
    'C09': dict(
        technique='Lean 4 theorems: expiry test = rule (all inputs), idempotent pass, every data '
                  'operation sees only unexpired documents; tied to the code by clock-history '
                  'correspondence and an independent shadow oracle',
        text='Lean 4 theorems about the model of the TTL machinery (store.py): the code\'s expiry '
             'test equals the rule of the property for every document, period and clock '
             '(earliest date of the field, array-aware, date + N <= now); with one single-field TTL '
             'index the pass keeps exactly the unexpired documents; the pass is idempotent and only '
             'removes (gone for good); EVERY data operation (insert, update, replace, delete, find, '
             'count, distinct) has the same outcome and leaves an equivalent collection whether '
             'issued before or after the pass, i.e. expired documents are invisible to all of them; '
             'documents without a date / with a future date, compound keys and non-numeric periods '
             'are inert; drop_index / drop_indexes / drop stop expiry. Tie: histories with clock '
             'moves (forwards, backwards, boundary instants) under a mocked mongomock.utcnow are '
             'run on /repo and on the compiled model; an independent python rendering of the rule '
             'decides what must be (in)visible after every step.',
        note='Aware clocks, dotted TTL field names and list-valued periods are outside the '
             'generator (see DESIGN.md).'),
}

CLAIMED['C18'] = dict(
    technique='Lean 4 theorems by mutual induction over the nested value type (normal form, '
              'idempotence, instant preservation, shape preservation, filter equivalence, '
              'provenance library), tied to the code by helper correspondence and a direct oracle '
              'over every write / filter / read path',
    text='Lean 4 theorems about the model of helpers.patch_datetime_awareness_in_document and '
         'make_datetime_timezone_aware_in_document, for ALL values at any nesting depth: patch is '
         'idempotent, its result is in normal form (naive, whole milliseconds) and its fixed points '
         'are exactly the normal values; two datetimes have the same stored form iff they denote '
         'the same millisecond (also before 1970); patch changes nothing but datetimes (same keys, '
         'order, lengths, leaves; commutes with path access); makeAware yields UTC-aware datetimes '
         'at every depth with the same instant and round-trips through patch; a filter carrying any '
         'datetime of the same millisecond selects the same documents (filterApplies after patch, '
         'datetime at any position); a library of provenance lemmas (dset, derase, append, insert, '
         'slice, filter, permutation, pad-and-set, path access) and reachable_date_inv reduce the '
         'store invariant "every stored datetime is normal" to one lemma per writer. Tie: patch and '
         'makeAware are compared with the real helpers on generated values, and the property is '
         'stated directly on the real API: 42 write paths (stored documents must be normal and '
         'denote the input millisecond), 15 filter-taking entry points x 11 filter forms queried '
         'with an equivalent and a different millisecond, 26 read paths under tz_aware False/True.',
    note='The store-level invariant for the full update language is covered by the direct oracle, '
         'not yet by a theorem over MongoModel.step (the provenance lemmas are its ingredients). '
         'PEP 495 fold, non-fixed-offset tzinfo and bson.Timestamp are out of scope.')

CLAIMED['C11'] = dict(
    technique='Lean 4 theorems: stable-sort theory (sorted, permutation, stable, unique), key order '
              'is a strict weak order, cursor slice arithmetic; tied to the code by correspondence '
              'on find/sort/skip/limit/slices/count/aggregate and an independent python oracle',
    text='Lean 4 theorems about the model of resolve_sort_key / _get_dataset / Cursor / '
         'count_documents / $sort-$skip-$limit: on the domain D (sort keys reaching null, bool, '
         'numbers, strings, naive dates, ObjectIds supplied by the caller, arrays of those - also '
         'through arrays of sub-documents - or nothing) the sort never raises and returns a '
         'permutation of its input that is sorted by the key-by-key BSON order (an array counts '
         'as its smallest item for an ascending key, its largest for a descending one, an empty '
         'array before null) with ties in natural order; the key order is a strict weak order on '
         'ALL documents; any stable sorted permutation equals the model\'s (so modelling timsort '
         'by insertion sort loses nothing); successive stable sorts from the last key to the '
         'first equal one sort by the lexicographic order; descending = stable sort by the '
         'flipped order; a missing key ties with null; for ANY constructor arguments and any '
         'sequence of cursor calls - empty slices [k:k] included - the results are '
         '(sorted.drop skip).take limit; count_documents equals the window length; '
         'update/replace never move a document and ids always come in insertion order of the '
         'survivors; $sort/$skip/$limit pipelines equal the find path. Tie: scenarios over 0-8 '
         'documents with mixed BSON types, arrays, ObjectIds, ties and missing values, random '
         'cursor-method sequences, slices, negative limits, count_documents, aggregate and write '
         'histories are run on /repo and on the compiled model and compared with an independent '
         'python oracle.',
    note='The three former known findings (empty cursor slice, array sort keys using the first '
         'element, ObjectId sort keys raising without bson) are repaired in the library and '
         'inside D now; their witnesses are replayed on every run. Sort keys that are embedded '
         'documents / nested arrays, ObjectIds generated by the library (their value is not '
         'modelled) and cursor reconfiguration after iteration started are outside D.')

CLAIMED['C17'] = dict(
    technique='Lean 4 refinement of the catalog state machine (lazy stores, derived existence, '
              'handle caches, shared stores) to an explicit-existence specification, with '
              'corollaries over all histories; tied to the code by multi-client history '
              'correspondence',
    text='Lean 4 theorems about the model of ServerStore/DatabaseStore/CollectionStore, Database '
         'and MongoClient: every reachable state is well formed; on the decidable domain D each '
         'step refines the explicit-existence specification (same maps, equivalent outputs), '
         'hence over whole histories; reads never create anything (no domain hypothesis); a '
         'collection exists and stays listed (and makes its database listed) from its first '
         'insert / create_index / create_collection until dropped or renamed; create_collection '
         'on an existing name fails without effect; rename moves exactly documents and indexes '
         'and its error cases (its own name included) change nothing; after drop_collection / drop '
         '/ drop_database, by name or by any handle of that name, every old handle finds nothing '
         'and stays usable; handles and clients sharing a store agree, independent clients are '
         'isolated (no exception left); a filtered listing is the listing filtered; '
         'index_information lists _id_ plus exactly the indexes created and not dropped. The '
         'full-strength refinement is refuted on a witness history (a collection vanishes from the '
         'listings when its last document is deleted), each of the two remaining exclusion classes '
         'is shown necessary by a witness, and the witnesses of the five classes repaired in the '
         'library are shown to be inside D with the right answers. Tie: histories of 1-30 '
         'catalog and data operations over 3 clients (one sharing a store), 2 databases, several '
         'names and old/fresh handles; after every call the full observable state of every client '
         'is compared with the model and with the specification run along the history.',
    note='Known findings (2 classes, replayed each run): vanish_last_doc, vanish_last_index. '
         'Repaired in the library (5; their witnesses go through the correspondence each run, a '
         'recurrence is a violation): rename_self_droptarget, filter_lists_uncreated, '
         'drop_database_foreign_handle, drop_collection_foreign_handle, system_create_existing. '
         'TTL/unique semantics of indexes belong to C06/C09.')

CLAIMED['C20'] = dict(
    technique='model REGENERATED from the source on every run (dispatch tables by introspection '
              'and AST, dispositions by probing) + Lean 4 theorems: table-wide decide +kernel, '
              'and unbounded "unknown $-name takes the raising default branch" per position',
    text='On every run the translators rebuild Generated/Tables.lean, Vocab.lean and Options.lean '
         'from /repo: the code\'s operator/stage/accumulator tables, the observed disposition of '
         'every name of the MongoDB 5.0 vocabulary (plus random unknown names) at 16 syntactic '
         'positions, and of every public method x option x ignore_feature setting. Lean 4 '
         'theorems are then re-checked against these tables: every observed "ignored" entry is a '
         'listed known finding (decide +kernel over the whole table); the hand-written dispatch '
         'structure reproduces every observation (dispatch_agrees); for EVERY name, an '
         'unrecognised $-name takes the default branch and raises at every non-lazy position '
         '(unbounded); stages without handler and $type aliases mapped to None raise; relevant '
         'options are rejected unless opted out, modulo the listed silent options; '
         'not_implemented.py obeys ignore/warn/guard laws for every state and feature. A new '
         'ignored name or silently accepted option breaks a proof obligation and is reported with '
         'the probing call as replay.',
    note='Known findings (42 entries): top-level / $elemMatch-level $not ignored, three lazy '
         'positions that validate nothing, 29 silently dropped options, 8 ineffective opt-outs. '
         'Projection operators and $bucket/$facet sub-positions are not probed.')

CLAIMED['C05'] = dict(
    technique='Lean 4 invariant over all histories of the collection state machine (store keys '
              'pairwise distinct, every document under its own _id), transitivity of Python == for '
              'all values, immutability across updates; tied to the code by history correspondence '
              'and a direct oracle incl. lookup-by-_id probes',
    text='Lean 4 theorems about MongoModel.step: IdInv (no two store keys equal; every document '
         'stored under a key equal to its own _id) holds for the empty collection and is preserved '
         'by EVERY operation, successful or rejected, hence in every reachable state of every '
         'history (on collections whose keys are well behaved: scalar, empty or single-field '
         'embedded _ids — the model\'s value universe also contains association lists with '
         'duplicate keys, which no Python dict can be, and the unrestricted statements are refuted '
         'on such witnesses); consequently no two stored documents have equal _ids; Python == is '
         'transitive on all values, symmetric on scalars and on well-formed values; an insert whose '
         '_id is already a key returns DuplicateKeyError and leaves exactly what the expiry pass '
         'leaves; a successful insert appends the document under an _id that was not a key '
         '(generated when absent); after any update / replacement / upsert every document is an '
         'old one under the same key with an equal _id, or the single upserted one. Tie: histories '
         'of 3-40 operations (>= 25% rejected writes, tiny id pool incl. embedded ids) are run on '
         '/repo and on the compiled model (outcomes, _id sequences); uniqueness, freshness, '
         'DuplicateKeyError on duplicates, immutability and find({_id: x}) = the stored document '
         'are checked directly on python after every step.',
    note='Multi-field embedded _ids are covered by the correspondence and the oracle only (scope '
         'limit embedded-id-multifield). Known finding id-boolnum: a replacement carrying _id true '
         'rewrites a stored _id 1 (Python == identifies them).')

CLAIMED['C10'] = dict(
    technique='Lean 4 theorems: find, count_documents, delete_one/many and update_one/many are '
              'all characterised by one selection function over the expired collection; tied to '
              'the code by history correspondence and a twin-collection relational oracle over all '
              'entry points',
    text='Lean 4 theorems about the model: for every collection, clock and filter, find yields '
         'exactly Spec.selectDocs (the shared scan) in natural order; count_documents is its '
         'length (with the skip/limit arithmetic) and raises exactly when find does; delete_many '
         'removes exactly the selected documents, reports their number, and that number is the '
         'drop in size; delete_one removes the first one; update_many matches exactly the selected '
         'documents (modified <= matched, no upsert), update_one has a target iff something is '
         'selected (the last four on collections satisfying C05\'s invariant). Tie: at the end of '
         'every generated history one generated filter goes through find, count_documents, '
         'update_many, update_one, delete_many, delete_one, aggregate $match, distinct and '
         'find_one, each on a twin copy, and all must agree; along the history deleted_count = '
         'size drop, inserted_ids = new ids, modified_count = number of changed documents; every '
         'step is also compared with the compiled model.',
    note='$match and distinct are covered by the relational oracle, not by a theorem (the pipeline '
         'model belongs to C03). Known finding match-empty-novalidate; order-only edits of '
         'upsert-built OrderedDict documents count as modifications (modified-order-only).')

CLAIMED['C12'] = dict(
    technique='Lean 4 theorems: projection is a per-document map whose output is a sub-document '
              'of its input, Impl = Spec on D for inclusion / exclusion / $slice / $elemMatch, '
              'find path = aggregate path; tied to the code by correspondence through find, '
              'find_one, find_one_and_* and $project',
    text='Lean 4 theorems about the model of _copy_only_fields / _project_by_spec / projection '
         'operators and the $project stage: find(f, p) is find(f) with each document replaced by '
         'its own projection (same documents, same order); for EVERY specification and document '
         'the output is a sub-document of the input (never alters or invents a value); on the '
         'domain D an inclusion returns _id plus exactly the requested paths (descending through '
         'sub-documents and each sub-document element of arrays) and an exclusion removes exactly '
         'the named paths; $slice keeps the stated contiguous part and $elemMatch exactly the '
         'first accepted element; the list form equals the dict form; the separately coded '
         'aggregate-path projection equals the find-path one on the common domain. D holds scope '
         'limits of the specification only (no condition on the document: arrays mixing scalars, '
         'sub-documents and nested arrays, and paths running into scalars are inside); the six '
         'defects that used to restrict it were repaired in /repo and their witnesses are replayed '
         'as ordinary cases on every run. Tie: documents with nested sub-documents, arrays '
         'of sub-documents and mixed arrays x a projection grammar go through find, find_one, '
         'find_one_and_update/replace/delete (both return modes) and aggregate $project and are '
         'compared with Impl and Spec; directly on python every result must be a sub-document of '
         'the stored one and counts/order equal the unprojected query.',
    note='No known finding left (mixedarray, exclscalar, aggdroparr, slicelimit, sliceskip, '
         'slicealone, argmutated were fixed in /repo). Computed $project fields, positional '
         'projection and mixed include/exclude are out of scope.')

CLAIMED['C06'] = dict(
    technique='Lean 4 invariant (no two covered documents with equal index keys) preserved by '
              'every operation and over histories, via a bridge between the uniqueness query the '
              'code issues and key equality; tied to the code by history correspondence and an '
              'independent python rendering of the uniqueness rule',
    text='Lean 4 theorems about the model of _ensure_uniques / create_index / the insert and '
         'update paths: UniqInv (for every unique index no two covered documents have equal index '
         'keys; missing = null; sparse and partial coverage) holds initially and is preserved by '
         'EVERY operation of the modelled language — insert, insert_many, update, replacement, '
         'upsert, deletes, reads, index creation and removal — on the domain of scalar index keys '
         'reached through sub-documents, with no further hypothesis (whatever the store keys, the '
         'documents before the step and the partial filters are), hence along every history '
         '(reachable_uniq_partial); a write that would duplicate a key is rejected; creating a '
         'unique index over duplicates fails with DuplicateKeyError and leaves the index table '
         'unchanged; a successful creation establishes uniqueness for that index (also sparse / '
         'partial). The unrestricted statement is refuted on a kernel-checked witness (a dotted '
         'index path that dead-ends in a scalar, known finding deadend-null). A genuine defect '
         'found by the proof attempt (an update whose result is ==-equal to the old document '
         'skipped the check) is repaired in the library; its witness is a regression example of '
         'the theorems and is replayed through oracle and correspondence on every run. Tie: histories over all write paths against single / '
         'nested / compound, sparse and partial unique indexes (also type-sensitive partial '
         'filters with updates that rewrite a value by an ==-equal one of another type) created '
         'before or after the data; outcome, _id sequence and index names are compared with the compiled model, and an '
         'independent python evaluation of the rule (multikey-aware) checks every listed unique '
         'index after every step.',
    note='Known findings: multikey (arrays are not multikey), deadend-null (a dotted index path '
         'ending in a scalar is not null), sparse-null (pinned by the library test '
         'test_sparse_unique_index). Repaired in the library: partial-type-sensitive, '
         'create-index-precheck. Index keys that are arrays or embedded documents are outside the theorem domain.')

CLAIMED['C07'] = dict(
    technique='Lean 4 heap model (values with object identities, copy primitives, a table of the '
              'copy discipline per API position) with a separation invariant over histories; tied '
              'to the code by walking the real object graph (id()) after every step and '
              'scribbling on every held object',
    text='Lean 4 theorems about a heap model: the deep primitives (rebuild = patch_datetime..., '
         '_copy_field, deepcopy) allocate only fresh identities and preserve the value; Sep (no '
         'object occurs twice in the store, nothing stored is held by the caller) is preserved by '
         'every step whose table row copies at every position, hence in every reachable world; '
         'under Sep, mutating ANY object the caller holds leaves the store unchanged and an edit '
         'of one stored document never shows in another; arguments are unchanged except the '
         'documented _id write of insert; the table rows that do not copy are exactly the listed '
         'positions (decide over the finite table), and a table without the per-document copy of '
         '$set is shown to break Sep. Tie: after EVERY step of generated histories (nested mutable '
         'values through every value-bearing operator and read path) the harness walks '
         'coll._store._documents and every held object, compares the observed sharing with the '
         'table position by position, deep-compares every argument with its pre-call copy, '
         'scribbles on everything held and re-reads the collection.',
    note='The table is read from the code and validated by observation (deep vs aliasing only). '
         'Known findings: caller-to-caller sharing of pipeline constants and cached cursor '
         'results. $sample/$out/$lookup/$facet and bulk_write are not generated here.')

CLAIMED['C15'] = dict(
    technique='Lean 4 theorems: bulk_write = fold of the single-operation step (unordered: all, '
              'ordered: a prefix), counters are running sums, upserted ids carry the operation '
              'index; tied to the code by history correspondence and a twin collection on which '
              'the requests are issued one at a time',
    text='Lean 4 theorems about the model of BulkOperationBuilder (MongoModel.bulkWrite) against '
         'the single-operation step function stepColl: an empty bulk is refused; for every state, '
         'clock and request list (InsertOne, UpdateOne, UpdateMany, ReplaceOne, DeleteOne, '
         'DeleteMany, with and without upsert, validated like their single counterparts) an '
         'unordered bulk in which every failure is a write error ends in exactly the state of '
         'issuing the requests one at a time; an ordered bulk ends in the one-at-a-time state of a '
         'prefix (the whole list when it succeeds) and its error reports exactly one write error, '
         'at the position where it stopped; every successful request adds exactly its own '
         'contribution to the counters and leaves the error list alone; every upserted _id is '
         'reported under the index of its operation. Tie: histories with bulk_write calls (~25% '
         'failing requests, ordered and unordered) are run on /repo and on the compiled model; on '
         'python every bulk_write is replayed on a twin collection as individual calls and state, '
         'counter sums, upserted indexes, failing index and code must agree; an empty bulk and a '
         'second execute must raise InvalidOperation. The builder object itself is modelled '
         '(Builder with its done flag): bulk_write is the first execute of a fresh builder; an '
         'empty builder is refused; whatever the first execute did (success, BulkWriteError '
         'half-way, abort) every later execute is refused and changes nothing '
         '(executed_only_once, execute_n_times); tied by bulk_builder steps that drive the real '
         'initialize_*_bulk_op API and call execute() 1-3 times.',
    note='A '
         'ReplaceOne whose replacement starts with $ is accepted by the bulk builder and rejected '
         'by replace_one: excluded by Spec.plainRequest. Non-write errors abort an unordered bulk '
         '(stated as hypothesis hw).')

CLAIMED['C19'] = dict(
    technique='Lean 4 theorems about a model of the reader/writer lock REGENERATED from '
              'mongomock/thread.py and of the lock discipline REGENERATED from mongomock/store.py: '
              'mutual-exclusion invariant and deadlock freedom for any number of threads by '
              'induction, kernel-checked closed state sets for 2 and 3 threads; tied to the code '
              'by the translators and by deterministic-scheduler runs of the real classes',
    text='Two translators trace mongomock/thread.py (RWLock: which counters and mutexes each of '
         'the four context-manager phases touches, in which order, what happens on an exception) '
         'and mongomock/store.py (which lock section each CollectionStore method runs in, what it '
         'iterates and mutates inside and outside) and regenerate Generated/RWLockProtocol.lean '
         'and Generated/LockDiscipline.lean on every run. Lean 4 theorems: the regenerated '
         'protocol and discipline equal the reference ones (by decide: a change in the code breaks '
         'exactly this obligation); for the reference protocol and ANY number of threads every '
         'reachable state of the protocol machine satisfies the mutex invariant (at most one '
         'writer inside, a writer inside excludes all readers, counters equal the number of '
         'readers inside), no release ever fails, the lock is released on the raise path and some '
         'thread can always move (no deadlock); two readers inside together is reachable; for the '
         'regenerated protocol itself closed state sets for 2 and 3 threads are re-enumerated by '
         'the model driver and re-checked by the kernel; compiled store programs whose phase '
         'tags are conformant refine the protocol machine; while a thread is inside a reader '
         'section no step of any thread changes the document map (snapshot iteration); with '
         'these, every schedule of every conformant program over the store methods ends with all '
         'locks released, no internal error and no deadlock, creation of TTL indexes and index '
         'drops concurrent with expiry passes included (thread_safe, thread_safe_any_n): the '
         'TTL index map is changed outside every section, and the discipline — checked on the '
         'compiled code — is that it is only ever walked through a snapshot taken in one action. '
         'The discipline the library had before the repair (walk over the live map) is kept as '
         'data: Lean refutes the property for it by a schedule (unrepaired_ttl_race, '
         'unrepaired_not_thread_safe) and shows that the theorem rejects it '
         '(unrepaired_not_disciplined). Tie: random scenarios (2-4 threads, 1-3 store calls each, '
         'reads, writes, failing reads, iteration with a throwing consumer, TTL expiry, creation '
         'of plain and TTL indexes, drops of plain and TTL indexes) run with real threads on the '
         'real CollectionStore/RWLock under a deterministic scheduler that switches at lock '
         'operations and yielded documents, and on the model; outcomes (per-thread results, final '
         'maps, errors) are compared and the property is judged directly on the real run. The '
         'walks over the index map at the Collection level (unique check of a write, index '
         'listing) are judged on the real code over all single-preemption schedules of six '
         '(operation, index operation) pairs.',
    note='Granularity is that of the property (lock operations and iteration steps): preemption '
         'inside one primitive action is not exhibited. Kernel certificates cover N = 2, 3; N >= 4 '
         'rests on the any-N hand proof for the reference protocol plus protocol_is_reference. '
         'A snapshot `list(d.values())` counts as one action (one C call under the GIL; the '
         'translator checks how the iterator is driven). Conformance of compiled code is a '
         'decidable hypothesis, proved per store method and recomputed per generated scenario. '
         'No known finding left (ttl-index-race fixed in the library).')

CLAIMED['C02'] = dict(
    technique='Lean 4 theorems about the model of the update interpreter (mongomock/collection.py '
              '_update_document_fields*, _apply_update), operator by operator, plus a frame '
              'theorem; tied to the code by chained update histories and an independent reference '
              'implementation of the operator definitions',
    text='Lean 4 theorems about MongoModel/Update.lean (runUpdater, updateSingleField, withSubdoc, '
         'push/addToSet/pull/pullAll/pop/rename, replaceWhole, applyUpdate), each for every '
         'document, path and argument: $set on any writable dotted path succeeds (set_total), the '
         'path then reads back the value (set_get), arrays are padded with nulls up to the index; '
         'an operator on one path leaves every field outside that path\'s first component alone '
         '(single_field_frame) and a whole update leaves every top-level field it does not '
         'address exactly as it was (untouched_fields); $unset removes the field and nothing else; '
         '$inc adds; $min/$max keep the smaller/larger; $pop drops the last/first element; $rename '
         'moves the value; $push appends, keeps the relative order of old elements for every '
         '$position, places $each exactly at xs[:p] ++ es ++ xs[p:], and $slice is the Python '
         'slice the definition names; $addToSet adds exactly the values not already present (by '
         'the matcher\'s equality), each once even when $each repeats it, and never removes; '
         '$min/$max on an array element replace it or pad the array; $pull follows its path '
         'through sub-documents and array indexes and does nothing when the path is missing; '
         '$pullAll on a missing path leaves the document alone; $pullAll / $pull (scalar operand) remove '
         'exactly the equal elements and keep the order of the rest; a replacement stores the new '
         'document with the stored _id kept; an update of a document is a document; an empty '
         'operator document is rejected exactly on emulated servers before 5.0. Tie: chained '
         'update histories (each update works on the result of the previous ones; $each / '
         '$position / $sort / $slice, dotted paths into and beyond arrays, 3% malformed) on '
         'server versions 4.4 and 5.0.5 run on /repo and on the compiled model (outcome and full '
         'documents compared); on python every matched document is also compared with an '
         'independent reference implementation of the operator definitions (harness/refupdate.py) '
         'wherever it commits to an answer.',
    note='Operator-by-operator theorems, not one equation applyUpdate = Spec for all updates: '
         'combinations are covered by untouched_fields plus the per-operator theorems on the '
         'addressed fields, and by the reference oracle at run time. Positional $ paths, $bit, '
         '$mul are outside the model (reported unmodelled / NotImplementedError on both sides). '
         'replace_spec assumes pyEq id id (false only on duplicate-key sub-documents, which no '
         'Python dict holds; counterexample kept in Props/C02.lean). Known finding: '
         'boolnum. Repaired in the library (their witnesses run through oracle and correspondence '
         'on every run): pullall-creates-path, minmax-array-noop, addtoset-each-dups, '
         'pull-through-array.')

CLAIMED['C14'] = dict(
    technique='Lean 4 theorems about the model of update_one / replace_one / delete_one and '
              '_find_and_modify: exactly the first selected document (natural order, or the '
              'requested sort order) is touched and its projected image returned; tied to the code '
              'by history correspondence and a before/after oracle on python',
    text='Lean 4 theorems about applyUpdateColl / deleteColl with multi=false and findAndModify '
         '(MongoModel/Store.lean, FindModify.lean) for every state satisfying the C05 invariant, '
         'every filter, update, projection and sort: update_one / replace_one leave every document '
         'but the first selected one (natural order) unchanged and add nothing; with no match they '
         'change nothing; delete_one removes exactly the first selected document; find_one with a '
         'sort returns the projection of the first selected document in that order; '
         'find_one_and_delete removes exactly the first match in sort order and returns its '
         'projected image whatever the projection; find_one_and_update / _replace change at most '
         'that document, add and remove nothing, return its projected before-image (BEFORE) or '
         'the projection of what is now stored under its _id (AFTER); with no match and no upsert '
         'they return nothing and change nothing. Three statements as first written are refuted '
         'in Lean (kept as _full_fails) on model states no history reaches (non-normalised or '
         'array-valued store keys) or on calls that raise before the expiry pass; the _partial '
         'theorems carry exactly the excluding hypotheses. Tie: histories dominated by '
         'single-document operations with multi-match filters, 1-2 key sorts, projections '
         '(inclusion, exclusion, {_id: 0}, empty result), both return modes, upserts, run on '
         '/repo and on the compiled model; on python the matches and their order are taken '
         'before the call and afterwards exactly the first may differ and the returned document '
         'must be its projected image.',
    note='TTL-free collections in the find_one_and_* theorems (hn); positional $ paths unmodelled.')

CLAIMED['C04'] = dict(
    technique='Lean 4 theorems about the model of the expression evaluator (aggregate.py _Parser) '
              'and of $expr in the matcher: model = oracle on a decidable domain D, plus '
              'operator laws for all inputs; tied to the code by type-directed differential '
              'evaluation through $project, $addFields and find({$expr})',
    text='Lean 4 theorems about MongoModel/Expr.lean (a mutual structural evaluator following '
         '_Parser.parse\'s dispatch order; exact integer / dyadic arithmetic) against Spec/Expr.lean '
         '(the value MongoDB defines) on the domain D = Spec/ExprDomain.lean (exclusion classes '
         'as named reasons): eval_eq_spec_partial (for every expression tree of any depth and '
         'every document in D the code\'s value is the oracle\'s; its full statement is refuted '
         'by a kernel-checked witness that is a known finding) and expr_filter_eq_spec_partial '
         '(the same for $expr in a filter, on the same D); expr_filter_spec, for ALL expressions '
         'and documents: find({$expr: e}) selects d iff the value of e on d is truthy, a missing '
         'value being false (full strength since the repairs of exprtruth / exprmissing in '
         '/repo). For all inputs: $literal is the identity; '
         'truthiness is MongoDB\'s (false, null, 0 only); $not/$and/$or, $cond (both forms), '
         '$ifNull (null or missing skipped, last operand is the fallback), $switch (first truthy '
         'case, else default); null/missing propagates through unary, binary and n-ary '
         'arithmetic; $lt/$gt/$lte/$gte are the four readings of the BSON comparison and exactly '
         'one of $lt/$eq/$gt holds off the bool/number clash; a missing value is omitted from '
         '$project/$addFields and from computed documents; $let/$map/$filter evaluate under the '
         'extended bindings, $filter returns a sublist; $concatArrays, $size, $in, $setUnion '
         '(sound, complete, duplicate-free), $concat; civil-date round trip for every integer '
         'day number, date parts in range, instant recomposed from its parts. Tie: expressions '
         'from a type-directed generator (depth <= 5, fields present / null / missing, nested '
         'documents and arrays, one case in ten anomalous) are evaluated on /repo through '
         '$project, $addFields and the per-document matcher and on the compiled model; values '
         'and error classes must agree exactly; in D the value is also compared with the oracle; '
         'find({$expr: e}) must equal the per-document matcher and $project must equal $addFields.',
    note='Theorem fragment: paths and variables, constant arrays, document literals, $literal, ten '
         'arithmetic operators, six comparisons, $not $and $or, $cond, $ifNull, $switch, $let, $map, '
         '$filter, $size, $concatArrays, $concat, $arrayElemAt, $strcasecmp, $toLower, $toUpper, '
         '$toString, $isArray, $isNumber, ten date parts; $cmp $in are in the oracle and '
         'cross-checked at run time but outside the theorem (reason unproved:<op>); set / '
         'accumulator / string slicing / math operators are modelled (correspondence) without '
         'oracle. 9 known findings (see known_findings.json), each with a witness replayed on '
         'every run; 12 further findings (exprtruth, exprmissing, strcasecmp, numtype, adddate, '
         'concatstr, nullarg, condkeys, undefvar, filtertruth, mapmissing, missingcmp; laxargs in '
         'part) were repaired in /repo: their exclusion classes are gone from D and their witnesses run as '
         'ordinary cases. andstrict is kept: C20 relies on an unsupported operator behind a false '
         '$and operand raising.')

CLAIMED['C13'] = dict(
    technique='Lean 4 theorems about the upsert path of the model of Collection._update '
              '(sentinel iteration, _expand_dots, _discard_operators, $setOnInsert): upsert iff '
              'no match, equal to the plain call otherwise, seed laws; tied to the code by '
              'history correspondence and an independent seed + operator reference on python',
    text='Lean 4 theorems about applyUpdateColl / expandDots / discardOps (MongoModel/Store.lean, '
         'Update.lean) for every state satisfying the C05 invariant, every filter and update: '
         'with a match, the call with upsert=True EQUALS the call without (whole state, whole '
         'result, errors included); without upsert nothing is ever inserted; a successful '
         'upserting call reports an upserted _id exactly when the filter selected nothing, and '
         'then exactly one document was appended, stored under the reported _id, with n = 1, '
         'nothing modified and nothing existing touched (upsert_iff_no_match); the reported '
         'result has matched_count 0 and the stored _id as upserted_id; the seed takes every '
         'plain equality of the filter, takes the operand of $eq, takes nothing from operator '
         'conditions, and expands a dotted path into nested sub-documents; $setOnInsert is the '
         'identity on an update of an existing document and $set on an insert. Tie: histories '
         'dominated by upserting update_one / update_many / replace_one / find_one_and_update / '
         '_replace and bulk requests with filters mixing equalities, $eq, dotted paths, _id and '
         'operator conditions, half of them aimed at existing documents, run on /repo and on the '
         'compiled model; on python the real find says what matches before the call, and '
         'afterwards: one new document iff nothing matched, nothing else touched, a matching '
         'call equals its twin run without upsert, the new document equals what an independent '
         'reference (seed from the filter, then refupdate.py with $setOnInsert) builds, '
         'upserted_id and matched_count are right, and a pure-equality filter the update does '
         'not overwrite finds the new document again.',
    note='upsert_iff_no_match assumes a TTL-free, non-empty collection (hn, hne); the '
         'match-after-upsert guarantee is a run-time oracle (its Lean statement would need the '
         'matcher/seed round trip, not proved). A null _id cannot be told from "no upsert" in '
         'UpdateResult (hypothesis id ≠ null). One defect found and fixed in /repo: nullid.')

CLAIMED['C16'] = dict(
    technique='Lean 4 theorems about a heap-level model of Collection.aggregate (object identities '
              'of store, caller and run-local objects; per-stage edit discipline REGENERATED from '
              'mongomock/aggregate.py): an invariant ("what the call works on was allocated by the '
              'call, in a window of identities nothing persistent lives in") carried by mutual '
              'induction through every stage and every $facet branch; read-only, pipeline argument '
              'unchanged, repeatable, $facet isolation, $sample sub-multiset, $out; tied to the '
              'code by the discipline translator, model correspondence and direct before/after '
              'oracles on the real objects',
    text='A translator reads mongomock/aggregate.py and collection.py (AST) and regenerates '
         'Generated/AggDiscipline.lean (how aggregate obtains its working list, how each stage '
         'handler copies / writes in place, whether $sample edits its options, whether $facet '
         'copies its input per branch, how $literal and array constants are handed out); theorem '
         'discipline_current (by decide) ties the table to the reference the other theorems are '
         'about (the discipline after the repairs c81c98c, f3c4371, 2eb2452). Lean 4 theorems '
         'about MongoModel/AggHeap.lean, for EVERY stage list of the modelled stages ($match/'
         '$sort/$skip/$limit, $sample, $addFields/$set incl. dotted paths, $project, $unwind, '
         '$lookup, $replaceRoot, $count, $facet nested arbitrarily), every state whose persistent '
         'part holds no run-local identity, and every value-level semantics Sem: without $out the '
         'collections, index entries, store counter (aggregate_readonly, _stages) and the very '
         'pipeline object (pipeline_arg_unchanged; also for pipelines ending in $out: '
         'pipeline_arg_unchanged_out) are identical after the call, hence the state is identical '
         'and the call repeated gives the same answer (repeatable, no further hypotheses); $sample '
         'returns a sub-list of a rearrangement of its input of length min(size, |input|) for '
         'every permutation drawn and changes nothing else (sample_submultiset); $facet returns '
         '{title_j: outs_j} where outs_j is sub-pipeline j run alone on a fresh deep copy of the '
         'stage\'s original input against the original collections and pipeline object '
         '(facet_isolated, with the invariant shown to hold initially and after every stage); '
         'after pre ++ [$out t] on documents carrying their _id the target holds exactly the '
         'output of pre, other collections are untouched and the output is passed through '
         '(out_replaces_target, out_passes_through). The same laws are shown to FAIL under the '
         'discipline /repo had before the repairs (unrepaired_* on the replayed witnesses). Tie: '
         'generated pipelines emphasising document-editing stages over 2-3 collections; on /repo: '
         'every collection (raw store, find, index_information, names) and the pipeline object (by '
         'value and by identity of every nested container) before / after, the same pipeline '
         'object run twice, every $facet branch against its stand-alone run on the very objects '
         'the prefix returns, $out target == returned == prefix output, $sample sub-multiset of '
         'the requested size, scribbling on returned documents must not reach the store; on the '
         'modelled fragment all of these answers are compared with the compiled model exactly.',
    note='facet_isolated states equality with the stand-alone run up to the numbering of fresh '
         'identities (value equality is the direct oracle); the $out theorems assume the documents '
         'carry their _id (generated _ids: direct oracle) and $out as the last top-level stage; '
         'inputs in which one object occurs twice are outside the model for $unwind and $facet '
         '(deepcopy memo). $group, $graphLookup, $bucket and expression operators are outside the '
         'modelled fragment (direct oracles only). Four defects found and fixed in /repo: '
         'sample-pops-size, facet-sibling-nested-addfields, facet-sibling-lookup, literal-written '
         '(a recurrence is a VIOLATION).')

CLAIMED['C03'] = dict(
    technique='Lean 4 theorems about a model of process_pipeline and the stage handlers '
              '(aggregate.py): a pipeline is the fold of its stages, each stage is the function '
              'the property names (find-path agreement, permutation / sublist / flat-map / '
              'partition laws), model = oracle on a decidable domain; tied to the code by '
              'pipeline correspondence and direct find-path, partition, join and prefix oracles',
    text='Lean 4 theorems about MongoModel/Pipeline.lean (runPipeline, runStage over the raw stage '
         'documents; $match $sort $skip $limit $count $project $group $bucket $unwind $lookup '
         '$addFields/$set $replaceRoot $facet; reusing the models of the matcher, sort, '
         'projection and expressions) for every pipeline and every collection content: '
         'runPipeline (p ++ q) is q run on the output of p, and equals the monadic fold of '
         'runStage; a facet branch is runPipeline of that branch on the same input; $match is '
         'exactly find\'s selection (a sublist, same matcher as C10); any $sort answer is a '
         'permutation of its input and on the C11 domain equals the cursor sort; $skip / $limit '
         'are drop / take; $count is the length (= count_documents); flag-only $project equals '
         'the find projection on the common domain; $group covers its input exactly once (group '
         'sizes sum to the input length, every output is accumulate + _id), on scalar non-bool '
         'keys the keys are pairwise distinct and each group is the filter of the input by key '
         'in input order; $push $first $last $sum(int) equal the plain folds; $bucket covers the '
         'input once and classifies by the largest boundary <= the value; $unwind is a flat map '
         '(one output per element with the field replaced; missing / null / empty handling); '
         '$lookup gives one output per input whose as-field is exactly the matcher-accepted '
         'foreign documents in foreign order and changes nothing else; $addFields and '
         '$replaceRoot preserve length and order and output i depends on input i only; on the '
         'domain D the model returns what the oracle Spec/Pipeline.lean says for $match $sort '
         '$skip $limit $count $project(flags) $unwind; five full-strength statements are refuted '
         'by kernel-checked witnesses that are known findings. Tie: pipelines of 1-5 stages from '
         'a stage grammar reusing the filter and expression generators, over documents sharing '
         'a schema (groups with several members, arrays to unwind, join keys that hit and miss) '
         'and a second collection for $lookup; exact output of list(aggregate(p)) on /repo '
         'against the compiled model, against the oracle in D, and direct python oracles: '
         'match = find, sort = find.sort, skip/limit = slice, count = count_documents, project = '
         'find projection, group = plain partition, lookup = plain join, and the prefix law '
         'aggregate(p ++ q) = aggregate(q) over the output of p stored in a fresh collection.',
    note='No "= Spec" equation for $group as a whole, $lookup, $addFields, $replaceRoot, $bucket, '
         '$facet (structural theorems plus python oracles); accumulator equations for $push '
         '$first $last $sum(int) only; group_partition_partial restricted to scalar non-bool '
         'keys. $sample, $out, $graphLookup are unmodelled here (C16 covers $sample/$out); '
         'pipelines whose in-place edits can alias (about 12% of cases, static predicate '
         'aliasRisk) are outside the value-level model and covered by the python oracles and by '
         'C16. 15 known findings (countempty, groupfalsyid, addtosetfalsy, firstmissing, ...).')

# theorems added after the first claim (appended to the text of the claim)
EXTENDED = {
    'C02': 'Whole updates are tied to their parts: for an update whose addressed top-level fields '
           'are pairwise distinct every entry alone succeeds on the original document and the '
           'result agrees with it on the fields it addresses (update_is_pointwise), the update '
           'fails iff some entry alone fails (update_error_iff), and permuting operators / paths '
           'does not change the result (update_order_irrelevant); a replacement yields exactly the '
           'replacement\'s fields plus the kept _id (replace_then_get, replace_ok_iff).',
    'C03': 'The model = oracle equation now covers twelve stage kinds (stageX_eq_spec_partial, '
           'pipelineX_eq_spec_partial, facet_eq_spec): $group equals the oracle as a permutation and, '
           'sorted by key, exactly (group_eq_spec_partial, group_eq_spec_sorted_partial) with all '
           'eight accumulators ($min/$max over one type class, $sum, exact $avg over ints, '
           '$addToSet as a set, $first/$last), $lookup equals the plain join on scalar join values '
           '(lookup_eq_spec_partial), $addFields/$set and $replaceRoot equal the oracle on distinct '
           'top-level names with expressions in the C04 domain; full statements refuted by the '
           'witnesses of minmaxtypes, sumbool, groupfalsyid, lookupboolnum and the new finding '
           'accmissing.',
    'C05': 'The invariant is lifted to the extended step (find_one, find_one_and_*, bulk_write, '
           'builder API): stepX_inv_partial, reachableX_inv_partial / _check over every history of '
           'all modelled operations (hypothesis GoodColl also on the collections between the '
           'requests of a bulk), bulk_dup_rejected.',
    'C06': 'Lifted to the extended step: stepX_uniq_inv_partial, reachableX_uniq_partial / _check '
           '(hypothesis only on the final state), bulk_dup_write_rejected, '
           'bulk_dup_write_error_at_index.',
    'C08': 'For the extended step: a failed find_one_and_* (BEFORE, or delete) leaves the '
           'collection untouched, for AFTER the exact residue is characterised (fam_failed_partial; '
           'the full statement is refuted by the known finding fam-after-projection-error); '
           'update_many that raises on the k-th matched document keeps exactly the documents '
           'before it updated (update_many_document_granularity); a failing atomic bulk request is '
           'a no-op, an ordered bulk applies exactly the requests before the first failure and an '
           'unordered one every request that succeeds on its own, with the failing positions '
           'reported (bulk_ordered_stops_at_first_failure, bulk_unordered_applies_every_success).',
    'C09': 'Lifted to the extended step: stepX_expired_invisible (find_one with sort / projection, '
           'find_one_and_*, bulk_write, builders).',
    'C10': 'Further entry points and counts: distinct returns exactly the (deduplicated, ==) items '
           'of the selected documents (distinct_eq_find, distinct_exact); find_one and '
           'find_one_and_* act on a member of the same selection, the first under the sort '
           '(find_one_in_selection, fam_target_in_selection); the $match stage over the stored '
           'documents equals find, expiry pass and empty collection included '
           '(aggregate_match_eq_find); matched / modified counts of update_one, replace_one, '
           'update_many (the natural reading of modified_count is refuted by the known finding '
           'modified-order-only, the exact count is proved), deleted_count = size drop = selection '
           'size, inserted ids = keys of the appended entries in order, bulk counters = sums of '
           'the selection sizes on the one-at-a-time states; a successful update_one does not '
           'imply a defined selection (refuted by the known finding lazy-raise, exact class proved).',
    'C13': 'Match after upsert: a document holding every pair of a plain-equality filter satisfies '
           'it (holds_all_matches); for such a filter and an operator update not addressing its '
           'keys the upserted document is matched by the filter and is the one document it selects '
           'afterwards (upsert_then_matched); the upserted _id comes from the filter, the '
           'replacement, $set / $setOnInsert or is a fresh ObjectId (upsert_id_*); the seed has '
           'every equality condition at its path at any depth (seed_at_paths). Known finding: '
           'upsert-empty-key.',
}

PENDING = {
    'C02': 'model (MongoModel/Update.lean) and correspondence exist; theorems not yet proved',
    'C03': 'in progress: pipeline model depends on the expression model (C04)',
    'C04': 'in progress: expression model and theorems being built',
    'C05': 'harness and statements exist; proofs in progress',
    'C06': 'model exists (ensureUniques / createIndex); oracle and theorems not yet written',
    'C07': 'in progress: heap (identity) model being built',
    'C10': 'harness exists; theorems not yet written',
    'C11': 'in progress',
    'C12': 'in progress',
    'C13': 'model exists (upsert path of applyUpdateColl); oracle and theorems not yet written',
    'C14': 'needs the find-and-modify model (depends on C11/C12 models)',
    'C15': 'needs the bulk model',
    'C16': 'depends on the pipeline and heap models',
    'C17': 'in progress',
    'C18': 'in progress',
    'C19': 'in progress',
    'C20': 'in progress',
}


def main():
    props = [json.loads(l) for l in open(os.path.join(VERIF, 'properties.jsonl'))]
    ids = [p['id'] for p in props]
    m = {
        'version': 1,
        'setup_cmd': 'cd lean && (lake build MongoModel Spec Proofs Props Generated mmdriver || '
                     'lake build mmdriver || true)',
        'hooks': {
            'guard': 'MONGOMOCK_VERIF',
            'enable': 'no hooks are needed: the checks import /repo\'s working tree in-process and '
                      'observe through the public API, Python-level attribute access and '
                      'monkeypatching from outside (mongomock.utcnow, mongomock.thread.threading)',
            'baseline_off_cmd': 'cd /repo && /venv/bin/python -m pytest -ra -q -p no:cacheprovider '
                                '--timeout=900 --continue-on-collection-errors',
            'source_commits': [],
            'add_only': True,
        },
        'engines': [
            {'name': 'lean-model', 'path': 'lean/', 'serves_properties': sorted(CLAIMED),
             'kind_free_text': 'Lean 4 model (MongoModel/*), oracles (Spec/*), property theorems '
                               '(Props/*) and proofs (Proofs/*); kernel-checked, axioms audited on '
                               'every run'},
            {'name': 'correspondence-harness', 'path': 'harness/',
             'serves_properties': sorted(CLAIMED),
             'kind_free_text': 'Python harness: seeded grammar-directed generators, runs /repo\'s '
                               'working tree in-process and the compiled Lean model driver '
                               '(lean/Driver) on the same cases / histories through a line '
                               'protocol, states the property directly on python\'s observations, '
                               'classifies, writes evidence and replays'},
        ],
        'checks': [],
        'not_applicable': [],
        'notes': 'fix: commits in /repo repair genuine defects found by these checks; see '
                 'DESIGN.md and known_findings.json. Properties under not_applicable are not '
                 'claimed yet (work in progress), not inapplicable in principle.',
    }
    for pid in ids:
        if pid in CLAIMED:
            c = CLAIMED[pid]
            m['checks'].append({
                'property_id': pid,
                'quick_cmd': './check %s --tier quick' % pid,
                'thorough_cmd': './check %s --tier thorough' % pid,
                'evidence_file': 'evidence/%s.json' % pid,
                'replay_cmd_template': './check %s --replay {path}' % pid,
                'engine': 'lean-model',
                'technique': c['technique'],
                'level_claimed': {'category': 'proof', 'design_ref': 'DESIGN.md §5 ' + pid,
                                  'text': c['text'] + (' ' + EXTENDED[pid] if pid in EXTENDED else '')},
                'level_note': NOTE + c['note'],
            })
        else:
            m['not_applicable'].append({'property_id': pid, 'reason': PENDING.get(
                pid, 'check not built yet')})
    json.dump(m, open(os.path.join(VERIF, 'MANIFEST.json'), 'w'), indent=1)


if __name__ == '__main__':
    main()
