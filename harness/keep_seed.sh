#!/bin/sh
# development: confirm a seeded change delivered in /tmp/seed/<ID> and store it under /verif/seeded/<name>
#   keep_seed.sh <ID> <name>
id=$1; name=$2; wt=/tmp/seed/$id
cd $wt/repo || exit 2
git diff > $wt/out/patch.diff
suite=$(PYTHONPATH=$wt/repo /venv/bin/python -m pytest -q -p no:cacheprovider tests 2>&1 | tail -1)
with=$(cd $wt/out && PYTHONPATH=$wt/repo /venv/bin/python -m pytest -q -p no:cacheprovider demo_test.py 2>&1 | tail -1)
git apply -R $wt/out/patch.diff
without=$(cd $wt/out && PYTHONPATH=$wt/repo /venv/bin/python -m pytest -q -p no:cacheprovider demo_test.py 2>&1 | tail -1)
git apply $wt/out/patch.diff
echo "suite: $suite"; echo "demo with: $with"; echo "demo without: $without"
mkdir -p /verif/seeded/$name
cp $wt/out/patch.diff $wt/out/demo_test.py /verif/seeded/$name/
python3 - "$id" "$name" "$suite" "$with" "$without" <<'PY'
import json, sys
id, name, suite, w, wo = sys.argv[1:6]
m = json.load(open('/tmp/seed/%s/out/meta.json' % id))
m['confirmed_by_me'] = {'suite_with_change': suite, 'demo_with_change': w, 'demo_without_change': wo,
                        'how': 'scratch git worktree of /repo under /tmp/seed, PYTHONPATH pointing at it'}
json.dump(m, open('/verif/seeded/%s/meta.json' % name, 'w'), indent=1)
PY
