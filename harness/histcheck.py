"""Engine shared by the history-based properties (C02, C05, C06, C08, C09, C10, C13, …).

For every generated history it runs the real code and the Lean model step by step, decodes both
answers into plain Python values (generated ObjectIds canonicalised by first appearance) and
hands them to a property object:

    prop.histgen(rng, oids)            -> hist.HistGen (weights / options of the property)
    prop.length(rng)                   -> history length
    prop.view(op, out, obs)            -> the part of a step the property is about (compared
                                          between python and model)
    prop.oracle(history, steps)        -> [(step index, label, text)] : the property stated
                                          directly on the python observations
    prop.nontrivial(history, steps)    -> bool
    prop.known_labels                  -> labels of known findings (from known_findings.json)

Verdicts (DESIGN.md §3): an oracle failure with an unlisted label is a VIOLATION with the
history prefix as replay; a python/model disagreement (correspondence broken) triggers the
search: if the oracle fails on that history it is reported with the concrete history, otherwise
the disagreement itself is reported with `no-failing-input-found`.
"""
import collections
import json
import random

import common
import hist
import wire


class Fresh(object):
    """a generated ObjectId, canonicalised by first appearance within one history"""

    def __init__(self, k):
        self.k = k

    def __eq__(self, other):
        return isinstance(other, Fresh) and other.k == self.k

    def __hash__(self):
        return hash(('fresh', self.k))

    def __repr__(self):
        return 'FreshOid#%d' % self.k


def decode_tokens(ts, i=0):
    """tokens → python value; `O#k` → Fresh(k); generator-made oids → ('oid', n)"""
    t = ts[i]
    if t == '{':
        d = {}
        i += 1
        while ts[i] != '}':
            k = bytes.fromhex(ts[i][1:]).decode('utf-8')
            d[k], i = decode_tokens(ts, i + 1)
        return d, i + 1
    if t == '[':
        l = []
        i += 1
        while ts[i] != ']':
            x, i = decode_tokens(ts, i)
            l.append(x)
        return l, i + 1
    if t.startswith('O#'):
        return Fresh(int(t[2:])), i + 1
    if t[0] == 'O':
        return ('oid', int(t[1:])), i + 1
    if t[0] == 'D':
        m, e = t[1:].split('/')
        return int(m) / float(2 ** int(e)), i + 1
    if t[0] == 't':
        return ('date', t[1:]), i + 1
    v, j = wire.dec_tokens(ts, i, None)
    return v, j


def decode_out(tokens):
    """an outcome: ('err', name[, details]) | ('set', sorted list) | ('val', value)"""
    if not tokens:
        return ('val', None)
    if tokens[0].startswith('!'):
        if tokens[0] == '!BulkWriteError':
            return ('err', 'BulkWriteError', decode_tokens(tokens, 1)[0])
        return ('err', tokens[0][1:])
    if tokens[0] == 'set':
        items = []
        i = 1
        while i < len(tokens):
            v, i = decode_tokens(tokens, i)
            items.append(v)
        return ('set', items)
    return ('val', decode_tokens(tokens, 0)[0])


def split_array(tokens):
    items, depth, cur = [], 0, []
    for t in tokens[1:-1]:
        cur.append(t)
        if t in ('{', '['):
            depth += 1
        elif t in ('}', ']'):
            depth -= 1
        if depth == 0:
            items.append(' '.join(cur))
            cur = []
    return items


class Step(object):
    __slots__ = ('op', 'out', 'obs', 'extra', 'raw_out', 'raw_obs', 'oids')

    def __repr__(self):
        return 'Step(%r -> %r)' % (self.op[0], self.out)


def canon_side(history, seq):
    """seq: [(out tokens, obs tokens)] → [Step] with fresh oids renumbered over the history"""
    flat = []
    for a, b in seq:
        flat.extend(a)
        flat.append('|')
        flat.extend(b)
        flat.append(';')
    flat = hist.renumber_fresh(flat)
    steps = []
    cur = []
    for t in flat:
        if t == ';':
            k = cur.index('|')
            st = Step()
            st.raw_out, st.raw_obs = cur[:k], cur[k + 1:]
            st.out = decode_out(st.raw_out)
            st.obs = decode_tokens(st.raw_obs, 0)[0] if st.raw_obs and st.raw_obs != ['_'] else None
            steps.append(st)
            cur = []
        else:
            cur.append(t)
    for st, op in zip(steps, history):
        st.op = op[1] if op and op[0] == 'noobs' else op
        st.extra = None
    return steps


def err_coarse(out):
    """error outcomes compared as 'raised' unless the class is one the properties name"""
    if out[0] == 'err':
        if out[1] in ('DuplicateKeyError', 'BulkWriteError', 'NotImplementedError'):
            return out
        if out[1] == 'WriteError':
            return out
        return ('err', 'Error')
    return out


def run_history(history, oids, server_version='5.0.5', probe=None, pre_probe=None):
    """→ python steps"""
    pyres = hist.run_python(history, oids, server_version, probe, pre_probe)
    seq = []
    for op, (po, pobs, extra, _, _) in zip(history, pyres):
        seq.append((po.split(), pobs.split()))
    steps = canon_side(history, seq)
    for st, r in zip(steps, pyres):
        st.extra = r[2]
        st.oids = oids
    return steps


def model_steps(history, line_out):
    parts = hist.split_steps(line_out)
    seq = []
    for op, (mo, mobs) in zip(history, parts):
        if op[0] == 'noobs':
            op = op[1]
        if op[0] == 'distinct' and mo and mo[0] == '[':
            mo = ['set'] + ' '.join(sorted(split_array(mo))).split()
        seq.append((mo, mobs))
    return canon_side(history, seq)


def pretty_history(history):
    return [wire.pretty(op) for op in history]


class Engine(object):
    def __init__(self, ctx, prop):
        self.ctx = ctx
        self.prop = prop
        self.stats = collections.Counter()
        self.opstats = collections.Counter()
        self.errstats = collections.Counter()
        self.nontrivial = set()
        self.samples = []
        self.steps_total = 0

    def replay_dict(self, history, upto, oids, kind, **kw):
        h = history[:upto + 1]
        d = {'kind': kind, 'history': pretty_history(h),
             'wire_history': wire.encs(h, oids),
             'server_version': getattr(self.prop, 'server_version', '5.0.5')}
        d.update(kw)
        return d

    def judge(self, history, oids, py, mo):
        prop = self.prop
        ctx = self.ctx
        # 1. the property stated directly on python's observations
        fails = prop.oracle(history, py)
        reported = False
        for (i, label, text) in fails:
            if label in prop.known_labels:
                ctx.known_seen[label] = ctx.known_seen.get(label, 0) + 1
                self.stats['known:' + label] += 1
            else:
                reported = True
                ctx.violation(self.replay_dict(history, i, oids, 'property fails on the real code',
                                               label=label, what=text), rank=i * 1000 + len(text))
        # 2. correspondence with the model, on the property's view of each step
        for i, (a, b) in enumerate(zip(py, mo)):
            if b.out[0] == 'err' and b.out[1] == '?unmodelled':
                self.stats['histories_cut_at_unmodelled'] += 1
                return
            if isinstance(b.obs, dict) and isinstance(b.obs.get('docs'), str) and \
                    b.obs['docs'].startswith('!?'):
                self.stats['histories_cut_at_unmodelled'] += 1
                return
            self.steps_total += 1
            self.opstats[a.op[0]] += 1
            if a.out[0] == 'err':
                self.errstats[a.out[1]] += 1
            va = prop.view(a.op, err_coarse(a.out), a.obs)
            vb = prop.view(b.op, err_coarse(b.out), b.obs)
            if va != vb:
                self.stats['correspondence_breaks'] += 1
                if not reported and not fails:
                    ctx.violation(self.replay_dict(
                        history, i, oids,
                        'correspondence broken: python differs from the model on this step; the '
                        'property oracle finds no failure on this history',
                        what_no_longer_checks='correspondence mongomock.Collection ~ '
                        'MongoModel.step (view of %s)' % prop.ID,
                        python=repr(va)[:1500], model=repr(vb)[:1500]),
                        no_input=True, rank=i * 1000)
                return

    def run(self, n_hist):
        ctx = self.ctx
        prop = self.prop
        rng = random.Random(ctx.seed * 7919 + prop.SALT)
        done = 0
        while done < n_hist and not ctx.too_many():
            batch = []
            lines = []
            for _ in range(min(400, n_hist - done)):
                oids = wire.Oids()
                hg = prop.histgen(rng, oids)
                history = hg.history(prop.length(rng))
                try:
                    line = hist.model_line(history, oids, getattr(prop, 'pre_v5', False))
                except wire.Unencodable:
                    continue
                py = run_history(history, oids, getattr(prop, 'server_version', '5.0.5'),
                                 getattr(prop, 'probe', None), getattr(prop, 'pre_probe', None))
                batch.append((history, oids, py))
                lines.append(line)
            done += 400
            outs = wire.run_driver(lines)
            for (history, oids, py), o in zip(batch, outs):
                mo = model_steps(history, o)
                self.stats['histories'] += 1
                self.judge(history, oids, py, mo)
                if prop.nontrivial(history, py):
                    h = common.case_hash(pretty_history(history))
                    if h not in self.nontrivial:
                        self.nontrivial.add(h)
                        if len(self.samples) < 3:
                            self.samples.append({
                                'history': pretty_history(history),
                                'outcomes': [repr(s.out)[:200] for s in py]})
        return self.coverage()

    def coverage(self):
        return {
            'evaluations': self.steps_total,
            'histories': self.stats['histories'],
            'distinct_nontrivial': len(self.nontrivial),
            'rule': self.prop.RULE,
            'samples': self.samples,
            'operation_histogram': dict(self.opstats),
            'python_error_kinds': dict(self.errstats),
            'stats': dict(self.stats),
        }

    def replay(self, path):
        e = json.load(open(path))
        oids = wire.Oids()
        history = wire.dec(e['wire_history'], oids)
        py = run_history(history, oids, e.get('server_version', '5.0.5'),
                         getattr(self.prop, 'probe', None), getattr(self.prop, 'pre_probe', None))
        out = wire.run_driver([hist.model_line(history, oids, getattr(self.prop, 'pre_v5', False))])
        mo = model_steps(history, out[0])
        self.judge(history, oids, py, mo)
        print(json.dumps({'steps': [repr(s.out)[:200] for s in py],
                          'violations': len(self.ctx.violations)}))
        return common.finish(self.ctx)


def ids_of(obs):
    """the `_id` sequence of an observation (list of hashable renderings)"""
    if not isinstance(obs, dict) or not isinstance(obs.get('docs'), list):
        return obs.get('docs') if isinstance(obs, dict) else None
    return [freeze(d.get('_id', '<missing>')) if isinstance(d, dict) else '<non-doc>'
            for d in obs['docs']]


def freeze(v):
    """hashable rendering that identifies values exactly (type-sensitive)"""
    if isinstance(v, dict):
        return ('doc',) + tuple((k, freeze(x)) for k, x in v.items())
    if isinstance(v, list):
        return ('arr',) + tuple(freeze(x) for x in v)
    if isinstance(v, bool):
        return ('bool', v)
    if isinstance(v, float):
        return ('dbl', v)
    if isinstance(v, int):
        return ('int', v)
    return v


def py_equal(a, b):
    """Python == on decoded values (dicts order-insensitive, 1 == 1.0 == True)"""
    return a == b


def full_view(op, out, obs):
    """outcome and the complete observable state (documents type-exactly, index names)"""
    if obs is None:
        st = None
    elif isinstance(obs, dict):
        docs = obs.get('docs')
        st = (tuple(freeze(d) for d in docs) if isinstance(docs, list) else docs,
              tuple(obs.get('indexes') or ()))
    else:
        st = obs
    if out[0] == 'set':
        o = ('set', tuple(sorted(repr(freeze(x)) for x in out[1])))
    elif out[0] == 'val':
        o = ('val', freeze(out[1]))
    else:
        o = tuple(freeze(x) for x in out)
    return (o, st)


def state_of(obs):
    if not isinstance(obs, dict):
        return obs
    docs = obs.get('docs')
    return (tuple(freeze(d) for d in docs) if isinstance(docs, list) else docs,
            tuple(obs.get('indexes') or ()))


def replay_fixed(eng, mod):
    """the witnesses of the findings repaired in the library (`fixed` entries of
    known_findings.json that carry a history) go through the oracle and the correspondence like
    any generated history: their label is no known label any more, so a recurrence of the defect
    is a VIOLATION.  → number of witnesses replayed"""
    n = 0
    for e in common.load_known(mod.ID):
        if e.get('status') != 'fixed' or not (e.get('witness') or {}).get('wire_history'):
            continue
        oids = wire.Oids()
        history = wire.dec(e['witness']['wire_history'], oids)
        py = run_history(history, oids, getattr(mod, 'server_version', '5.0.5'),
                         getattr(mod, 'probe', None), getattr(mod, 'pre_probe', None))
        out = wire.run_driver([hist.model_line(history, oids, getattr(mod, 'pre_v5', False))])
        eng.judge(history, oids, py, model_steps(history, out[0]))
        n += 1
    return n


def module_api(mod, quick, thorough, fixed=False):
    """the standard run / replay / replay_finding of a history property module; with `fixed` the
    witnesses of the repaired findings are run before the generated histories"""
    def run(ctx, proof, driver_ok):
        if not driver_ok:
            return {'explanation': 'model driver unavailable'}
        eng = Engine(ctx, mod)
        replayed = replay_fixed(eng, mod) if fixed else None
        cov = eng.run(ctx.n(quick, thorough))
        if replayed is not None:
            cov['fixed_witnesses_replayed'] = replayed
        return cov

    def replay(ctx, path):
        return Engine(ctx, mod).replay(path)

    def replay_finding(ctx, e):
        oids = wire.Oids()
        history = wire.dec(e['witness']['wire_history'], oids)
        py = run_history(history, oids, getattr(mod, 'server_version', '5.0.5'),
                         getattr(mod, 'probe', None), getattr(mod, 'pre_probe', None))
        return any(label == e['id'] for (_, label, _) in mod.oracle(history, py))
    return run, replay, replay_finding


def renumber_state(st):
    """a frozen state with its generated ObjectIds renumbered by first appearance in the state
    (for comparing states of two different runs)"""
    m = {}

    def go(v):
        if isinstance(v, Fresh):
            if v.k not in m:
                m[v.k] = Fresh(len(m))
            return m[v.k]
        if isinstance(v, tuple):
            return tuple(go(x) for x in v)
        return v
    return go(st)


def canon_value(v, oids):
    """a raw python value (as in a history) in the decoded-observation representation"""
    return decode_tokens(wire.enc(v, oids), 0)[0]
