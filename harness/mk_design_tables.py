"""(development helper) rewrites the generated parts of DESIGN.md §0 — the status table per
property (theorem counts of Props/<Id>.lean, findings of known_findings.json) and the list of
fix: commits in /repo — between their marker lines.   python3 harness/mk_design_tables.py"""
import collections, json, os, re, subprocess
V = os.path.dirname(os.path.dirname(os.path.abspath(__file__)))
MODEL = {'C01': 'Value, Bson, Filter (+Expr for `$expr`)', 'C02': 'Update',
         'C03': 'Pipeline (on Filter, Sort, Project, Expr)', 'C04': 'ExprOps, Expr',
         'C05': 'Store, Ops', 'C06': 'Store', 'C07': 'Heap', 'C08': 'Store, Ops',
         'C09': 'Store (TTL)', 'C10': 'Store, Filter', 'C11': 'Sort', 'C12': 'Project',
         'C13': 'Store (upsert path), Update', 'C14': 'Store, FindModify',
         'C15': 'FindModify (bulk, Builder)', 'C16': 'AggHeap + Generated/AggDiscipline',
         'C17': 'Catalog', 'C18': 'DateTime',
         'C19': 'RWLock* + Generated/RWLockProtocol, LockDiscipline, certificates',
         'C20': 'Vocab + Generated/Tables, Options, Vocab'}
TIE = {'C01': 'per-case correspondence (>10⁶ cases validated), find-vs-matcher oracle',
       'C02': 'chained update histories + independent reference `refupdate.py` + update_many vs '
              'per-document twin',
       'C03': 'pipeline correspondence + direct oracles (find path, partition, join, flat map, '
              'entry merge, prefix law)',
       'C04': 'type-directed expressions through `$project`, `$addFields`, `find({$expr})`',
       'C05': 'histories (incl. colliding datetime `_id`s)',
       'C06': 'histories + pairwise oracle', 'C07': 'aliasing probes on real objects',
       'C08': 'histories with ~20 % failing ops, insert_many / bulk_write twins',
       'C09': 'clock histories with unobserved steps + shadow oracle',
       'C10': 'final filter through 9 entry points on twins (+ tz_aware handle, pattern values)',
       'C11': 'cursor method orders, skip/limit, array and ObjectId keys',
       'C12': 'projections incl. `$slice`/`$elemMatch`',
       'C13': 'upsert histories + seed/operator reference + twin without upsert',
       'C14': 'histories + before/after oracle',
       'C15': 'bulk_write and builder-API histories + one-at-a-time twin',
       'C16': 'discipline translator + model correspondence + before/after oracles on real objects',
       'C17': 'catalog histories over three clients (per-step and end-only observation)',
       'C18': 'all entry points with aware/naive/µs datetimes',
       'C19': 'translators + deterministic scheduler on real threads + release and index-walk probes',
       'C20': 'translator (AST + run-time tables) + option probes + lazy-context probes'}


def main():
    k = json.load(open(os.path.join(V, 'known_findings.json')))
    by = collections.defaultdict(lambda: {'known': [], 'fixed': []})
    for e in k['findings']:
        by[e['property']][e['status']].append(e['id'])
    rows = []
    for i in range(1, 21):
        p = 'C%02d' % i
        n = len(re.findall(r'^theorem ', open(os.path.join(V, 'lean', 'Props', p + '.lean')).read(),
                           re.M))
        kn, fx = by[p]['known'], by[p]['fixed']
        ks = ', '.join(kn) if len(kn) <= 8 else ', '.join(kn[:6]) + ', …'
        rows.append('| %s | %s | %d | %s | %d: %s | %d |'
                    % (p, MODEL[p], n, TIE[p], len(kn), ks or '–', len(fx)))
    table = ('| id | model (MongoModel/) | theorems | tie to /repo | known findings | fixed |\n'
             '|---|---|---|---|---|---|\n' + '\n'.join(rows) + '\n')
    out = subprocess.run(['git', '-C', '/repo', 'log', '--reverse', '--format=%h %s'],
                         stdout=subprocess.PIPE).stdout.decode()
    fx = [l for l in out.splitlines() if re.match(r'^[0-9a-f]+ fix:', l)]
    fixlist = '\n'.join('* `%s` %s' % (l.split()[0], l.split(' ', 2)[2]) for l in fx)
    path = os.path.join(V, 'DESIGN.md')
    s = open(path).read()
    a = s.index('| id | model (MongoModel/) | theorems |')
    b = s.index('All 20 properties are claimed')
    s = s[:a] + table + '\n' + s[b:]
    a = s.index('**`fix:` commits in /repo** (')
    b = s.index('**Seeded regressions**')
    head = s[a:b].split('\n\n')[0]
    head = re.sub(r'\*\*`fix:` commits in /repo\*\* \(\d+;', '**`fix:` commits in /repo** (%d;' % len(fx),
                  head)
    s = s[:a] + head + '\n\n' + fixlist + '\n\n' + s[b:]
    open(path, 'w').write(s)
    print('DESIGN.md: %d fix commits, table rewritten' % len(fx))


if __name__ == '__main__':
    main()
