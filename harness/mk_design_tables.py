"""(development helper) prints the generated parts of DESIGN.md §0: theorem / finding counts per
property and the list of fix: commits in /repo."""
import collections, glob, json, os, re, subprocess
V = os.path.dirname(os.path.dirname(os.path.abspath(__file__)))
k = json.load(open(os.path.join(V, 'known_findings.json')))
c = collections.Counter((e['property'], e['status']) for e in k['findings'])
print('| id | theorems | known | fixed |\n|---|---|---|---|')
for i in range(1, 21):
    pid = 'C%02d' % i
    f = os.path.join(V, 'lean', 'Props', pid + '.lean')
    n = len(re.findall(r'^theorem ', open(f).read(), re.M)) if os.path.exists(f) else 0
    print('| %s | %d | %d | %d |' % (pid, n, c[(pid, 'known')], c[(pid, 'fixed')]))
out = subprocess.run(['git', '-C', '/repo', 'log', '--reverse', '--format=%h %s'],
                     stdout=subprocess.PIPE).stdout.decode()
fx = [l for l in out.splitlines() if re.match(r'^[0-9a-f]+ fix:', l)]
print('\n%d fix: commits' % len(fx))
for l in fx:
    print('* `%s` %s' % (l.split()[0], l.split(' ', 2)[2]))
