"""Reference semantics of MongoDB update operators, written independently of mongomock and of the
Lean model, for the oracle of C02/C13.  `apply(doc, update, on_insert)` returns the expected
document, or raises `Unknown` whenever the reference does not want to commit to an answer
(unusual targets, errors, operators outside the list) — the oracle then stays silent.

Values are the decoded observation values of histcheck (dicts, lists, scalars, ('date', …),
('oid', n), Fresh objects): only equality and ordering of numbers / strings are ever needed.
"""
import copy


class Unknown(Exception):
    pass


def is_num(v):
    return isinstance(v, (int, float)) and not isinstance(v, bool)


def eq(a, b):
    """BSON-ish equality: numbers by value, bool only with bool, documents ordered"""
    if isinstance(a, bool) or isinstance(b, bool):
        return isinstance(a, bool) and isinstance(b, bool) and a == b
    if is_num(a) and is_num(b):
        return a == b
    if isinstance(a, dict) and isinstance(b, dict):
        return list(a.keys()) == list(b.keys()) and all(eq(a[k], b[k]) for k in a)
    if isinstance(a, list) and isinstance(b, list):
        return len(a) == len(b) and all(eq(x, y) for x, y in zip(a, b))
    if type(a) != type(b):
        return False
    return a == b


def walk(doc, parts, create):
    """the container holding the last component; creates sub-documents / pads arrays on the way
    when `create`; raises Unknown when the path is blocked"""
    cur = doc
    for p in parts[:-1]:
        if isinstance(cur, dict):
            if p not in cur:
                if not create:
                    return None
                cur[p] = {}
            cur = cur[p]
        elif isinstance(cur, list):
            if not p.isdigit():
                raise Unknown('non-numeric component on array')
            i = int(p)
            if i >= len(cur):
                if not create:
                    return None
                raise Unknown('index past the end on the way')
            cur = cur[i]
        else:
            raise Unknown('path blocked by a scalar')
    return cur


def set_at(doc, parts, value):
    cont = walk(doc, parts, True)
    last = parts[-1]
    if isinstance(cont, dict):
        cont[last] = value
    elif isinstance(cont, list):
        if not last.isdigit():
            raise Unknown('non-numeric component on array')
        i = int(last)
        while len(cont) < i:
            cont.append(None)
        if i == len(cont):
            cont.append(value)
        else:
            cont[i] = value
    else:
        raise Unknown('path blocked by a scalar')


def get_at(doc, parts):
    cur = doc
    for p in parts:
        if isinstance(cur, dict):
            if p not in cur:
                return ('missing',)
            cur = cur[p]
        elif isinstance(cur, list):
            if not p.isdigit() or int(p) >= len(cur):
                return ('missing',)
            cur = cur[int(p)]
        else:
            return ('missing',)
    return ('value', cur)


def in_list(v, xs):
    return any(eq(v, x) for x in xs)


# the update operators of the property (the ones the library implements); every other `$name` at
# the top of an update document must be refused, whether or not a document matches
KNOWN_OPERATORS = frozenset([
    '$set', '$unset', '$inc', '$min', '$max', '$push', '$addToSet', '$pull', '$pullAll', '$pop',
    '$rename', '$currentDate', '$setOnInsert'])


def unknown_operators(update):
    """the top-level `$names` of an update document that are no update operator"""
    if not isinstance(update, dict):
        return []
    return [k for k in update if str(k).startswith('$') and k not in KNOWN_OPERATORS]


def addtoset_clause(update):
    """(path, clause) of a `$addToSet` argument that carries a clause next to `$each` (only
    `$push` takes `$position` / `$sort` / `$slice`): applying it to a document must be refused"""
    body = update.get('$addToSet') if isinstance(update, dict) else None
    if isinstance(body, dict):
        for p, arg in body.items():
            if isinstance(arg, dict) and '$each' in arg and len(arg) > 1:
                return p, [k for k in arg if k != '$each'][0]
    return None


def apply(doc, update, on_insert=False):
    """expected document after applying an operator update (never a replacement)"""
    d = copy.deepcopy(doc)
    if not isinstance(update, dict) or not update:
        raise Unknown('not an operator update')
    paths = []
    for op, body in update.items():
        if not isinstance(body, dict):
            raise Unknown('malformed')
        for path, arg in body.items():
            if '$' in path or path == '' or '..' in path or path.startswith('.') or path.endswith('.'):
                raise Unknown('positional / odd path')
            parts = path.split('.')
            if parts[0] == '_id':
                raise Unknown('_id path')
            mine = [parts]
            if op == '$rename' and isinstance(arg, str):
                mine.append(arg.split('.'))
            for q in paths:
                for m in mine:
                    if q[:len(m)] == m or m[:len(q)] == q:
                        raise Unknown('conflicting paths')
            paths.extend(mine)
            one(d, op, parts, arg, on_insert)
    return d


def one(d, op, parts, arg, on_insert):
    if op == '$set' or (op == '$setOnInsert' and on_insert):
        set_at(d, parts, copy.deepcopy(arg))
    elif op == '$setOnInsert':
        return
    elif op == '$unset':
        cont = walk(d, parts, False)
        if isinstance(cont, dict):
            cont.pop(parts[-1], None)
        elif cont is not None:
            raise Unknown('unset inside array')
    elif op == '$inc':
        if not is_num(arg):
            raise Unknown('non-number')
        cur = get_at(d, parts)
        if cur[0] == 'missing':
            set_at(d, parts, arg)
        elif is_num(cur[1]):
            set_at(d, parts, cur[1] + arg)
        else:
            raise Unknown('inc of non-number')
    elif op in ('$min', '$max'):
        cur = get_at(d, parts)
        if cur[0] == 'missing':
            set_at(d, parts, copy.deepcopy(arg))
        elif is_num(cur[1]) and is_num(arg):
            better = arg < cur[1] if op == '$min' else arg > cur[1]
            if better:
                set_at(d, parts, arg)
        elif isinstance(cur[1], str) and isinstance(arg, str):
            better = arg < cur[1] if op == '$min' else arg > cur[1]
            if better:
                set_at(d, parts, arg)
        else:
            raise Unknown('min/max across types')
    elif op == '$push':
        cur = get_at(d, parts)
        if cur[0] == 'missing':
            arr = []
        elif isinstance(cur[1], list):
            arr = cur[1]
        else:
            raise Unknown('push to non-array')
        if isinstance(arg, dict) and '$each' in arg:
            extra = set(arg) - {'$each', '$position', '$slice', '$sort'}
            if extra or not isinstance(arg['$each'], list):
                raise Unknown('bad modifier')
            each = copy.deepcopy(arg['$each'])
            pos = arg.get('$position')
            if pos is None:
                arr = arr + each
            else:
                if not isinstance(pos, int) or isinstance(pos, bool):
                    raise Unknown('position')
                i = max(len(arr) + pos, 0) if pos < 0 else min(pos, len(arr))
                arr = arr[:i] + each + arr[i:]
            if '$sort' in arg:
                s = arg['$sort']
                if isinstance(s, dict):
                    if len(s) != 1:
                        raise Unknown('sort spec')
                    (k, direction), = s.items()
                    keys = [get_at(x, k.split('.')) for x in arr]
                    if any(kk[0] == 'missing' or not is_num(kk[1]) for kk in keys):
                        raise Unknown('sort keys')
                    order = sorted(range(len(arr)), key=lambda j: keys[j][1],
                                   reverse=direction < 0)
                    arr = [arr[j] for j in order]
                else:
                    if not all(is_num(x) for x in arr) and not all(isinstance(x, str) for x in arr):
                        raise Unknown('sort mixed')
                    arr = sorted(arr, reverse=s < 0)
            if '$slice' in arg:
                n = arg['$slice']
                if not isinstance(n, int) or isinstance(n, bool):
                    raise Unknown('slice')
                arr = arr[n:] if n < 0 else arr[:n]
        else:
            arr = arr + [copy.deepcopy(arg)]
        set_at(d, parts, arr)
    elif op == '$addToSet':
        cur = get_at(d, parts)
        if cur[0] == 'missing':
            arr = []
        elif isinstance(cur[1], list):
            arr = list(cur[1])
        else:
            raise Unknown('addToSet to non-array')
        items = arg['$each'] if isinstance(arg, dict) and '$each' in arg else [arg]
        if not isinstance(items, list):
            raise Unknown('each')
        if isinstance(arg, dict) and '$each' in arg and len(arg) > 1:
            raise Unknown('modifiers')
        for x in items:
            if not in_list(x, arr):
                arr.append(copy.deepcopy(x))
        set_at(d, parts, arr)
    elif op == '$pull':
        cur = get_at(d, parts)
        if cur[0] == 'missing':
            return
        if not isinstance(cur[1], list):
            raise Unknown('pull from non-array')
        if isinstance(arg, (dict, list)):
            raise Unknown('pull condition')
        set_at(d, parts, [x for x in cur[1] if not eq(x, arg)])
    elif op == '$pullAll':
        cur = get_at(d, parts)
        if cur[0] == 'missing':
            return
        if not isinstance(cur[1], list) or not isinstance(arg, list):
            raise Unknown('pullAll')
        set_at(d, parts, [x for x in cur[1] if not in_list(x, arg)])
    elif op == '$pop':
        cur = get_at(d, parts)
        if cur[0] == 'missing':
            return
        if not isinstance(cur[1], list) or arg not in (1, -1) or isinstance(arg, bool):
            raise Unknown('pop')
        set_at(d, parts, cur[1][:-1] if arg == 1 else cur[1][1:])
    elif op == '$rename':
        if len(parts) != 1 or not isinstance(arg, str) or '.' in arg or arg.startswith('$'):
            raise Unknown('rename')
        if parts[0] in d and arg != parts[0] and isinstance(d, dict):
            v = d.pop(parts[0])
            d[arg] = v
        elif arg == parts[0]:
            raise Unknown('rename to itself')
    elif op == '$currentDate':
        raise Unknown('clock')
    else:
        raise Unknown('operator ' + op)


def same_doc(a, b):
    """equal as documents up to field order at the top level and inside sub-documents (field
    order is not part of what C02 states)"""
    if isinstance(a, dict) and isinstance(b, dict):
        return set(a) == set(b) and all(same_doc(a[k], b[k]) for k in a)
    if isinstance(a, list) and isinstance(b, list):
        return len(a) == len(b) and all(same_doc(x, y) for x, y in zip(a, b))
    if isinstance(a, bool) or isinstance(b, bool):
        return isinstance(a, bool) and isinstance(b, bool) and a == b
    if is_num(a) and is_num(b):
        return a == b
    if type(a) != type(b):
        return False
    return a == b
