"""Reference semantics of MongoDB update operators, written independently of mongomock and of the
Lean model, for the oracle of C02/C13.  `apply(doc, update, on_insert)` returns the expected
document, or raises `Unknown` whenever the reference does not want to commit to an answer
(unusual targets, errors, operators outside the list) — the oracle then stays silent.

Values are the decoded observation values of histcheck (dicts, lists, scalars, ('date', …),
('oid', n), Fresh objects): only equality and ordering of numbers / strings are ever needed.
"""
import copy


class Unknown(Exception):
    pass


def is_num(v):
    return isinstance(v, (int, float)) and not isinstance(v, bool)


def eq(a, b):
    """BSON-ish equality: numbers by value, bool only with bool, documents ordered"""
    if isinstance(a, bool) or isinstance(b, bool):
        return isinstance(a, bool) and isinstance(b, bool) and a == b
    if is_num(a) and is_num(b):
        return a == b
    if isinstance(a, dict) and isinstance(b, dict):
        return list(a.keys()) == list(b.keys()) and all(eq(a[k], b[k]) for k in a)
    if isinstance(a, list) and isinstance(b, list):
        return len(a) == len(b) and all(eq(x, y) for x, y in zip(a, b))
    if type(a) != type(b):
        return False
    return a == b


def walk(doc, parts, create):
    """the container holding the last component; creates sub-documents / pads arrays on the way
    when `create`; raises Unknown when the path is blocked"""
    cur = doc
    for p in parts[:-1]:
        if isinstance(cur, dict):
            if p not in cur:
                if not create:
                    return None
                cur[p] = {}
            cur = cur[p]
        elif isinstance(cur, list):
            if not p.isdigit():
                raise Unknown('non-numeric component on array')
            i = int(p)
            if i >= len(cur):
                if not create:
                    return None
                raise Unknown('index past the end on the way')
            cur = cur[i]
        else:
            raise Unknown('path blocked by a scalar')
    return cur


def set_at(doc, parts, value):
    cont = walk(doc, parts, True)
    last = parts[-1]
    if isinstance(cont, dict):
        cont[last] = value
    elif isinstance(cont, list):
        if not last.isdigit():
            raise Unknown('non-numeric component on array')
        i = int(last)
        while len(cont) < i:
            cont.append(None)
        if i == len(cont):
            cont.append(value)
        else:
            cont[i] = value
    else:
        raise Unknown('path blocked by a scalar')


def get_at(doc, parts):
    cur = doc
    for p in parts:
        if isinstance(cur, dict):
            if p not in cur:
                return ('missing',)
            cur = cur[p]
        elif isinstance(cur, list):
            if not p.isdigit() or int(p) >= len(cur):
                return ('missing',)
            cur = cur[int(p)]
        else:
            return ('missing',)
    return ('value', cur)


def in_list(v, xs):
    return any(eq(v, x) for x in xs)


# the update operators of the property (the ones the library implements); every other `$name` at
# the top of an update document must be refused, whether or not a document matches
KNOWN_OPERATORS = frozenset([
    '$set', '$unset', '$inc', '$min', '$max', '$push', '$addToSet', '$pull', '$pullAll', '$pop',
    '$rename', '$currentDate', '$setOnInsert'])


def unknown_operators(update):
    """the top-level `$names` of an update document that are no update operator"""
    if not isinstance(update, dict):
        return []
    return [k for k in update if str(k).startswith('$') and k not in KNOWN_OPERATORS]


def addtoset_clause(update):
    """(path, clause) of a `$addToSet` argument that carries a clause next to `$each` (only
    `$push` takes `$position` / `$sort` / `$slice`): applying it to a document must be refused"""
    body = update.get('$addToSet') if isinstance(update, dict) else None
    if isinstance(body, dict):
        for p, arg in body.items():
            if isinstance(arg, dict) and '$each' in arg and len(arg) > 1:
                return p, [k for k in arg if k != '$each'][0]
    return None


def apply(doc, update, on_insert=False, filt=None):
    """expected document after applying an operator update (never a replacement); with `filt`
    (the query that selected `doc`) a positional `$` in a path is resolved by the rule of the
    positional operator (`resolve_positional`), otherwise such a path is declined"""
    d = copy.deepcopy(doc)
    if not isinstance(update, dict) or not update:
        raise Unknown('not an operator update')
    paths = []
    for op, body in update.items():
        if not isinstance(body, dict):
            raise Unknown('malformed')
        for path, arg in body.items():
            if '$' in path and filt is not None and isinstance(path, str):
                path = resolve_positional(doc, op, path, arg, filt, on_insert)
            if '$' in path or path == '' or '..' in path or path.startswith('.') or path.endswith('.'):
                raise Unknown('positional / odd path')
            parts = path.split('.')
            if parts[0] == '_id':
                raise Unknown('_id path')
            mine = [parts]
            if op == '$rename' and isinstance(arg, str):
                mine.append(arg.split('.'))
            for q in paths:
                for m in mine:
                    if q[:len(m)] == m or m[:len(q)] == q:
                        raise Unknown('conflicting paths')
            paths.extend(mine)
            one(d, op, parts, arg, on_insert)
    return d


def one(d, op, parts, arg, on_insert):
    if op == '$set' or (op == '$setOnInsert' and on_insert):
        set_at(d, parts, copy.deepcopy(arg))
    elif op == '$setOnInsert':
        return
    elif op == '$unset':
        cont = walk(d, parts, False)
        if isinstance(cont, dict):
            cont.pop(parts[-1], None)
        elif cont is not None:
            raise Unknown('unset inside array')
    elif op == '$inc':
        if not is_num(arg):
            raise Unknown('non-number')
        cur = get_at(d, parts)
        if cur[0] == 'missing':
            set_at(d, parts, arg)
        elif is_num(cur[1]):
            set_at(d, parts, cur[1] + arg)
        else:
            raise Unknown('inc of non-number')
    elif op in ('$min', '$max'):
        cur = get_at(d, parts)
        if cur[0] == 'missing':
            set_at(d, parts, copy.deepcopy(arg))
        elif is_num(cur[1]) and is_num(arg):
            better = arg < cur[1] if op == '$min' else arg > cur[1]
            if better:
                set_at(d, parts, arg)
        elif isinstance(cur[1], str) and isinstance(arg, str):
            better = arg < cur[1] if op == '$min' else arg > cur[1]
            if better:
                set_at(d, parts, arg)
        else:
            raise Unknown('min/max across types')
    elif op == '$push':
        cur = get_at(d, parts)
        if cur[0] == 'missing':
            arr = []
        elif isinstance(cur[1], list):
            arr = cur[1]
        else:
            raise Unknown('push to non-array')
        if isinstance(arg, dict) and '$each' in arg:
            extra = set(arg) - {'$each', '$position', '$slice', '$sort'}
            if extra or not isinstance(arg['$each'], list):
                raise Unknown('bad modifier')
            each = copy.deepcopy(arg['$each'])
            pos = arg.get('$position')
            if pos is None:
                arr = arr + each
            else:
                if not isinstance(pos, int) or isinstance(pos, bool):
                    raise Unknown('position')
                i = max(len(arr) + pos, 0) if pos < 0 else min(pos, len(arr))
                arr = arr[:i] + each + arr[i:]
            if '$sort' in arg:
                s = arg['$sort']
                if isinstance(s, dict):
                    if len(s) != 1:
                        raise Unknown('sort spec')
                    (k, direction), = s.items()
                    keys = [get_at(x, k.split('.')) for x in arr]
                    if any(kk[0] == 'missing' or not is_num(kk[1]) for kk in keys):
                        raise Unknown('sort keys')
                    order = sorted(range(len(arr)), key=lambda j: keys[j][1],
                                   reverse=direction < 0)
                    arr = [arr[j] for j in order]
                else:
                    if not all(is_num(x) for x in arr) and not all(isinstance(x, str) for x in arr):
                        raise Unknown('sort mixed')
                    arr = sorted(arr, reverse=s < 0)
            if '$slice' in arg:
                n = arg['$slice']
                if not isinstance(n, int) or isinstance(n, bool):
                    raise Unknown('slice')
                arr = arr[n:] if n < 0 else arr[:n]
        else:
            arr = arr + [copy.deepcopy(arg)]
        set_at(d, parts, arr)
    elif op == '$addToSet':
        cur = get_at(d, parts)
        if cur[0] == 'missing':
            arr = []
        elif isinstance(cur[1], list):
            arr = list(cur[1])
        else:
            raise Unknown('addToSet to non-array')
        items = arg['$each'] if isinstance(arg, dict) and '$each' in arg else [arg]
        if not isinstance(items, list):
            raise Unknown('each')
        if isinstance(arg, dict) and '$each' in arg and len(arg) > 1:
            raise Unknown('modifiers')
        for x in items:
            if not in_list(x, arr):
                arr.append(copy.deepcopy(x))
        set_at(d, parts, arr)
    elif op == '$pull':
        cur = get_at(d, parts)
        if cur[0] == 'missing':
            return
        if not isinstance(cur[1], list):
            raise Unknown('pull from non-array')
        if isinstance(arg, (dict, list)):
            raise Unknown('pull condition')
        set_at(d, parts, [x for x in cur[1] if not eq(x, arg)])
    elif op == '$pullAll':
        cur = get_at(d, parts)
        if cur[0] == 'missing':
            return
        if not isinstance(cur[1], list) or not isinstance(arg, list):
            raise Unknown('pullAll')
        set_at(d, parts, [x for x in cur[1] if not in_list(x, arg)])
    elif op == '$pop':
        if arg not in (1, -1) or isinstance(arg, bool):
            raise Unknown('pop operand')      # refused whatever the document holds
        cur = get_at(d, parts)
        if cur[0] == 'missing':
            return
        if not isinstance(cur[1], list):
            raise Unknown('pop')
        set_at(d, parts, cur[1][:-1] if arg == 1 else cur[1][1:])
    elif op == '$rename':
        if len(parts) != 1 or not isinstance(arg, str) or '.' in arg or arg.startswith('$'):
            raise Unknown('rename')
        if parts[0] in d and arg != parts[0] and isinstance(d, dict):
            v = d.pop(parts[0])
            d[arg] = v
        elif arg == parts[0]:
            raise Unknown('rename to itself')
    elif op == '$currentDate':
        raise Unknown('clock')
    else:
        raise Unknown('operator ' + op)


def same_doc(a, b):
    """equal as documents up to field order at the top level and inside sub-documents (field
    order is not part of what C02 states)"""
    if isinstance(a, dict) and isinstance(b, dict):
        return set(a) == set(b) and all(same_doc(a[k], b[k]) for k in a)
    if isinstance(a, list) and isinstance(b, list):
        return len(a) == len(b) and all(same_doc(x, y) for x, y in zip(a, b))
    if isinstance(a, bool) or isinstance(b, bool):
        return isinstance(a, bool) and isinstance(b, bool) and a == b
    if is_num(a) and is_num(b):
        return a == b
    if type(a) != type(b):
        return False
    return a == b


# ---------------------------------------------------------------------------------------------
# the positional operator `$` (MongoDB manual, "$ (update)"): the `$` of a path `f.$…` stands for
# the index of the FIRST element of the array `f` that satisfies the query's condition on `f`;
# a query without a condition on `f`, or one no element satisfies, makes the update an error, and
# so does a positional path on an upsert.  Written independently of mongomock and of the Lean
# model; whatever the manual leaves open (several conditions on one array outside `$elemMatch`,
# conditions inside `$and`/`$or`, negations, nested arrays, `$[]`) is declined (`Unknown`).

class RuleError(Exception):
    """the rule makes the update an error (no verdict on which error)"""


_ORDER_OPS = {'$gt': lambda a, b: a > b, '$gte': lambda a, b: a >= b,
              '$lt': lambda a, b: a < b, '$lte': lambda a, b: a <= b}
_MISSING = object()


def _same_class(a, b):
    return (is_num(a) and is_num(b)) or (isinstance(a, str) and isinstance(b, str))


def value_satisfies(v, cond):
    """a value (never an array, never missing) against a condition: a scalar to equal, or a
    document of $eq/$gt/$gte/$lt/$lte/$in over scalars"""
    if isinstance(v, (list, dict)) or v is _MISSING:
        raise Unknown('condition on a container / missing value')
    if isinstance(cond, dict):
        if not cond or not all(str(k).startswith('$') for k in cond):
            raise Unknown('sub-document equality')
        for k, arg in cond.items():
            if k == '$eq':
                if isinstance(arg, (list, dict)) or not eq(v, arg):
                    if isinstance(arg, (list, dict)):
                        raise Unknown('container operand')
                    return False
            elif k in _ORDER_OPS:
                if isinstance(arg, (list, dict, bool)) or arg is None or isinstance(v, bool) \
                        or v is None:
                    raise Unknown('ordering of odd values')
                if not _same_class(v, arg) or not _ORDER_OPS[k](v, arg):
                    return False
            elif k == '$in':
                if not isinstance(arg, list) or any(isinstance(x, (list, dict)) for x in arg):
                    raise Unknown('$in operand')
                if not in_list(v, arg):
                    return False
            else:
                raise Unknown('operator ' + str(k))
        return True
    if isinstance(cond, list):
        raise Unknown('array operand')
    return eq(v, cond)


def element_matches(el, query):
    """an element of the array against a query over its fields `{k: cond, …}`"""
    if not isinstance(el, dict) or not isinstance(query, dict):
        raise Unknown('element / query that is no document')
    for k, cond in query.items():
        if str(k).startswith('$') or '.' in str(k):
            raise Unknown('operator or dotted key in the element query')
        if not value_satisfies(el.get(k, _MISSING), cond):
            return False
    return True


def positional_index(doc, f, filt):
    """the index `$` stands for in a path through the array `doc[f]` under the query `filt`;
    raises RuleError when the rule makes the update an error"""
    if not isinstance(filt, dict) or any(str(k).startswith('$') for k in filt):
        raise Unknown('logical operators in the query')
    arr = doc.get(f, _MISSING) if isinstance(doc, dict) else _MISSING
    if not isinstance(arr, list):
        raise Unknown('no array under the field')
    conds = [(k, c) for k, c in filt.items() if k == f or str(k).startswith(f + '.')]
    if not conds:
        raise RuleError('the query does not constrain the array')
    if len(conds) > 1:
        raise Unknown('several conditions on the array')
    k, c = conds[0]
    if isinstance(c, dict) and any(x in c for x in ('$ne', '$nin', '$not', '$nor')):
        raise Unknown('negation')
    if k == f:
        if isinstance(c, dict) and '$elemMatch' in c:
            if len(c) != 1 or not isinstance(c['$elemMatch'], dict):
                raise Unknown('$elemMatch next to other operators')
            q = c['$elemMatch']
            if q and all(str(x).startswith('$') for x in q):
                test = lambda el: value_satisfies(el, q)
            else:
                test = lambda el: element_matches(el, q)
        else:
            test = lambda el: value_satisfies(el, c)
    else:
        rest = k[len(f) + 1:]
        if '.' in rest or rest.isdigit() or rest.startswith('$') or rest == '':
            raise Unknown('deeper path in the condition')
        test = lambda el: element_matches(el, {rest: c})
    for i, el in enumerate(arr):
        if test(el):
            return i
    raise RuleError('no element satisfies the condition')


def resolve_positional(doc, op, path, arg, filt, on_insert):
    """the path with `$` replaced by the index the rule gives (resolved on the document as the
    query matched it)"""
    parts = path.split('.')
    if parts.count('$') != 1 or parts[0] == '$' or len(parts) < 2 or '' in parts or \
            any('$' in p and p != '$' for p in parts):
        raise Unknown('odd positional path')
    if parts.index('$') != 1:
        raise Unknown('positional operator below the top-level field')
    if op == '$rename':
        raise Unknown('$rename')
    if on_insert:
        raise RuleError('a positional path on an upsert')
    i = positional_index(doc, parts[0], filt)
    el = doc[parts[0]][i]
    if len(parts) == 2:
        # the element itself is the target
        if op == '$inc' and not is_num(el):
            raise RuleError('$inc of an element that is no number')
        if op == '$pop' and not isinstance(el, list):
            raise RuleError('$pop of an element that is no array')
        if op in ('$push', '$addToSet', '$pull', '$pullAll') and not isinstance(el, list):
            raise RuleError('array operator on an element that is no array')
        if op == '$unset':
            raise Unknown('$unset of an element (stores null)')
        if op in ('$min', '$max') and not (is_num(el) or isinstance(el, str)):
            raise Unknown('$min/$max of a container')
    else:
        if not isinstance(el, dict):
            raise RuleError('a field of an element that is no document')
        if op in ('$pop', '$pull', '$pullAll') and get_at(el, parts[2:])[0] == 'missing':
            raise Unknown('array operator on a missing field')
    return '.'.join([parts[0], str(i)] + parts[2:])


def positional_paths(update):
    """[(operator, path)] of the paths of an update that hold a `$`"""
    out = []
    if isinstance(update, dict):
        for op, body in update.items():
            if isinstance(body, dict):
                out.extend((op, p) for p in body if isinstance(p, str) and '$' in p)
    return out


def positional_class(op_name, filt, update, on_insert):
    """the known deviation class (Spec/UpdatePositional.lean) a positional update falls in, if
    any — the first that applies"""
    pp = positional_paths(update)
    if not pp:
        return None
    if on_insert:
        return 'positional-upsert'
    if op_name == 'find_one_and_update':
        return 'positional-fam-filter-lost'
    fields = [p.split('.')[0] for _, p in pp]
    keys = [str(k) for k in filt] if isinstance(filt, dict) else []
    for f in fields:
        if any(k.startswith(f) and k != f and not k.startswith(f + '.') for k in keys):
            return 'positional-prefix-key'
    for f in fields:
        if not any(k == f or k.startswith(f + '.') for k in keys):
            return 'positional-unconstrained'
    for f in fields:
        c = filt.get(f, _MISSING)
        if c is not _MISSING:
            q = c.get('$elemMatch') if isinstance(c, dict) else None
            if not (isinstance(q, dict) and q and not all(str(x).startswith('$') for x in q)):
                return 'positional-value-condition'
    entries = [(op, p) for op, body in update.items() if isinstance(body, dict) for p in body]
    first_pos = min(i for i, (op, p) in enumerate(entries) if '$' in p)
    last_pos = max(i for i, (op, p) in enumerate(entries) if '$' in p)
    for op, body in update.items():
        if isinstance(body, dict):
            ks = list(body)
            if any(str(p).endswith('.$') for p in ks[:-1]):
                # `f.$` followed by further keys in the SAME operator document: the code's loop
                # variable `doc` now names the array element, the later keys are applied to it
                return 'positional-doc-rebound'
    if any('$' not in p and str(p).split('.')[0] in fields for op, p in entries[:last_pos]):
        # an earlier operator of the same update wrote under the array: the code looks for the
        # element on the document as that operator left it
        return 'positional-reevaluated'
    if len(pp) > 1 or any(op == '$push' or (op in ('$addToSet', '$pullAll') and '.' in p)
                          for op, p in entries[:first_pos]):
        return 'positional-carried-container'
    op, p = pp[0]
    parts = p.split('.')
    if parts[-1] == '$' and op != '$set':
        return 'positional-whole-element-op'
    if op in ('$push', '$addToSet', '$pull', '$pullAll'):
        f = parts[0]
        if not (isinstance(filt.get(f), dict) and '$elemMatch' in filt[f]):
            return 'positional-needs-elemmatch'
        if op == '$pull':
            return 'positional-pull'
    if len(parts) > 3:
        return 'positional-missing-intermediate'
    return None
