"""(development helper) build the `known` C07 entries of known_findings.json from literal witness
histories, checking each against the real code and the model (the same checker the run uses).
The entries proj-id-alias, proj-op-alias, result-id-alias, proj-arg-mutated are `fixed` (5ac4c3c)
and are left as they are."""
import json
import os
import sys
sys.path.insert(0, os.path.dirname(os.path.abspath(__file__)))
import common  # noqa: E402
import wire  # noqa: E402
import props.c07 as c07  # noqa: E402

W = [
    ('agg-literal-alias',
     'constants of a pipeline ($literal values, array constants of $addFields/$project) are put '
     'into every output document as they are (caller -> caller aliasing, the store is not '
     'involved): editing a result edits the caller\'s pipeline and the other results, and a later '
     '$addFields on a nested path writes into the caller\'s pipeline',
     [['insert_many', [{'_id': 1}, {'_id': 2}], True],
      ['aggregate', [{'$addFields': {'q': {'$literal': {'z': 1}}}}]]]),
    ('cursor-cache-alias',
     'a Cursor caches its result list and hands out the cached objects (collection.py:1909-1942): '
     'after editing a document obtained from a cursor, rewinding / indexing the same cursor '
     'returns the edited object (caller -> caller aliasing, the store is not involved)',
     [['insert_one', {'_id': 1, 'a': [1]}],
      ['find_rewind', {}, None]]),
]

out = []
for label, what, history in W:
    oids = wire.Oids()
    wh = wire.encs(history, oids)
    ctx = common.Ctx('C07', 'quick', 0)
    r, judge = c07.run_one(ctx, wire.dec(wh, wire.Oids()), wire.Oids(),
                           known=c07.known_ids() | {label})
    seen = set(c for c, _, _ in r.events) | set(ctx.known_seen)
    assert label in seen, (label, seen, dict(judge.table))
    assert c07.consequence(label), label
    print(label, 'ok', sorted(seen), len(ctx.violations))
    out.append({'property': 'C07', 'id': label, 'status': 'known', 'what': what,
                'witness': {'history': history, 'wire_history': wh, 'consequence': label}})
path = os.path.join(wire.VERIF, 'known_findings.json')
data = json.load(open(path))
ids = set(e['id'] for e in out)
data['findings'] = [x for x in data['findings']
                    if not (x['property'] == 'C07' and x['id'] in ids)] + out
json.dump(data, open(path, 'w'), indent=1)
