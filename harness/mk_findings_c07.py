"""(development helper) build the C07 entries of known_findings.json from literal witness
histories, checking each against the real code and the model (the same checker the run uses)."""
import json
import os
import sys
sys.path.insert(0, os.path.dirname(os.path.abspath(__file__)))
import common  # noqa: E402
import wire  # noqa: E402
import props.c07 as c07  # noqa: E402

W = [
    ('proj-id-alias',
     'a projection re-attaches the STORED _id object to the result (collection.py:1214 '
     'doc_copy[\'_id\'] = doc[\'_id\']): with an embedded-document _id, editing the _id of a document '
     'returned by find/find_one/find_one_and_* with any projection that keeps _id edits the stored '
     'document (its store key then no longer matches)',
     [['insert_many', [{'_id': {'k': 1}, 'a': [1]}], True],
      ['find', {}, {'a': 1}, None, 0, 0]]),
    ('proj-op-alias',
     '$slice / $elemMatch projections take the field out of the STORED document when the '
     'projection has not copied it yet (collection.py:1114 doc_copy[field] = doc[field]): the '
     'sub-documents in the returned array are the stored objects',
     [['insert_one', {'_id': 1, 'a': [{'x': 1}, {'x': 2}]}],
      ['find_one', {}, {'a': {'$slice': 1}}],
      ['find_one', {}, {'a': {'$elemMatch': {'x': 2}}}]]),
    ('result-id-alias',
     'inserted_id / inserted_ids / upserted_id are the STORED _id object (collection.py:548 return '
     'data[\'_id\'] after patching): with an embedded-document _id, editing the returned id edits '
     'the stored document',
     [['insert_one', {'_id': {'k': 1}, 'a': 1}],
      ['update_one', {'_id': {'k': 2}}, {'$set': {'a': 2}}, True]]),
    ('proj-arg-mutated',
     'the projection dictionary passed by the caller is edited in place (collection.py:1185-1221: '
     '_id and the operator fields are popped and put back): key order changes, "_id": 1 is added, '
     'and the popped keys stay removed when the call raises ($slice on a non-array, mixed '
     'inclusion/exclusion, unsupported operator)',
     [['insert_one', {'_id': 1, 'a': 5}],
      ['find', {}, {'a': {'$slice': 1}, '_id': 1}, None, 0, 0],
      ['find', {}, {'a': 1}, None, 0, 0]]),
    ('agg-literal-alias',
     'constants of a pipeline ($literal values, array constants of $addFields/$project) are put '
     'into every output document as they are (caller -> caller aliasing, the store is not '
     'involved): editing a result edits the caller\'s pipeline and the other results, and a later '
     '$addFields on a nested path writes into the caller\'s pipeline',
     [['insert_many', [{'_id': 1}, {'_id': 2}], True],
      ['aggregate', [{'$addFields': {'q': {'$literal': {'z': 1}}}}]]]),
    ('cursor-cache-alias',
     'a Cursor caches its result list and hands out the cached objects (collection.py:1896-1929): '
     'after editing a document obtained from a cursor, rewinding / indexing the same cursor '
     'returns the edited object (caller -> caller aliasing, the store is not involved)',
     [['insert_one', {'_id': 1, 'a': [1]}],
      ['find_rewind', {}, None]]),
]

out = []
for label, what, history in W:
    oids = wire.Oids()
    wh = wire.encs(history, oids)
    ctx = common.Ctx('C07', 'quick', 0)
    r, judge = c07.run_one(ctx, wire.dec(wh, wire.Oids()), wire.Oids(),
                           known=c07.known_ids() | {label})
    seen = set(c for c, _, _ in r.events) | set(ctx.known_seen)
    assert label in seen, (label, seen, dict(judge.table))
    assert c07.consequence(label), label
    print(label, 'ok', sorted(seen), len(ctx.violations))
    out.append({'property': 'C07', 'id': label, 'status': 'known', 'what': what,
                'witness': {'history': history, 'wire_history': wh, 'consequence': label}})
path = os.path.join(wire.VERIF, 'known_findings.json')
data = json.load(open(path))
data['findings'] = [x for x in data['findings'] if x['property'] != 'C07'] + out
json.dump(data, open(path, 'w'), indent=1)
