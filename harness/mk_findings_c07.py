"""(development helper) maintain the C07 entries of known_findings.json from literal witness
histories, checking each against the real code and the model (the same checker the run uses).

All C07 findings are repaired in the library by now: proj-id-alias, proj-op-alias,
result-id-alias, proj-arg-mutated (5ac4c3c), update-value-alias (1c3a0e6), agg-literal-alias
(aab0261), cursor-cache-alias (b973460), cursor-sort-by-reference (0c1b9e0), cursor-projection-by-reference (b829c96; it had been
listed as an assumption of the harness, not as a finding).  This script turns the entries listed in FIXED into
`fixed` records (keeping / adding the witness history) after checking that the witness runs clean
through `props.c07.run_one` with nothing listed as known and that the named consequence no longer
shows; run it with the repaired library on PYTHONPATH."""
import json
import os
import sys
sys.path.insert(0, os.path.dirname(os.path.abspath(__file__)))
import common  # noqa: E402
import wire  # noqa: E402
import props.c07 as c07  # noqa: E402

FIXED = [
    ('cursor-sort-by-reference', '0c1b9e0',
     'a Cursor keeps the sort list it was given by reference and reads it when it computes its '
     'results (first iteration, clone()): editing the list after find() returned changes the order '
     'the cursor and its clones give (an argument aliased into the cursor)',
     [['insert_many', [{'_id': 1, 'a': 2}, {'_id': 2, 'a': 1}], True],
      ['find_rewind', {}, None, [['rewind']], [['a', 1]]],
      ['cursor_again', 0, ['clone']]],
     'cursor-sort-by-reference'),
    ('cursor-projection-by-reference', 'b829c96',
     'a Cursor keeps the projection dict / list it was given by reference and reads it when it '
     'computes its results (first iteration, clone(), sort()): editing the projection after find() '
     'returned changes what the cursor and its clones return (an argument aliased into the '
     'cursor; the filter was copied already)',
     [['insert_one', {'_id': 1, 'a': 1, 'b': 2}],
      ['find_rewind', {}, {'a': 1}, [['rewind']]],
      ['cursor_again', 0, ['clone']]],
     'cursor-projection-by-reference'),
    ('cursor-cache-alias', 'b973460',
     'a Cursor caches its result list and hands out the cached objects (collection.py:1909-1942): '
     'after editing a document obtained from a cursor, rewinding / indexing the same cursor '
     'returns the edited object (caller -> caller aliasing, the store is not involved)',
     [['insert_one', {'_id': 1, 'a': [1]}],
      ['find_rewind', {}, None]],
     'cursor-cache-alias'),
    ('update-value-alias', '1c3a0e6',
     'update_many placed the very same sub-document / list object carried by $set, $push, '
     '$addToSet, $each, $setOnInsert, $min, $max into every matched document, so a later in-place '
     'update of one document changed the others',
     [['insert_many', [{'_id': 1}, {'_id': 2}], True],
      ['update_many', {}, {'$set': {'a': {'x': []}}}, False],
      ['update_one', {'_id': 1}, {'$push': {'a.x': 1}}, False],
      ['find_one', {'_id': 2}, None]],
     None),
]

path = os.path.join(wire.VERIF, 'known_findings.json')
data = json.load(open(path))
for label, commit, what, history, cons in FIXED:
    oids = wire.Oids()
    wh = wire.encs(history, oids)
    ctx = common.Ctx('C07', 'quick', 0)
    r, judge = c07.run_one(ctx, wire.dec(wh, wire.Oids()), wire.Oids(), known=set())
    assert not ctx.violations and not r.events, (label, r.events, ctx.violations[:1])
    assert not (cons and c07.consequence(cons)), label
    print(label, 'clean', dict(judge.table))
    old = [x for x in data['findings'] if x['property'] == 'C07' and x['id'] == label]
    witness = dict(old[0].get('witness', {})) if old else {}
    witness.update({'history': history, 'wire_history': wh})
    if cons:
        witness['consequence'] = cons
    entry = {'property': 'C07', 'id': label, 'status': 'fixed', 'what': what, 'witness': witness,
             'commit': commit, 'fixed': 'fixed: property=C07 %s %s' % (commit, what)}
    data['findings'] = [entry if (x['property'] == 'C07' and x['id'] == label) else x
                        for x in data['findings']]
    if not old:
        data['findings'].append(entry)
json.dump(data, open(path, 'w'), indent=1)
