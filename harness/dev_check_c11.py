"""development helper: `./check C11` while the shared Proofs/C01.lean still contains `sorry`
stubs in this working copy (the forbidden-token audit scans every Lean source; the C11 theorems do
not import Proofs/C01.lean).  Identical to harness/check.py otherwise."""
import os
import sys
HERE = os.path.dirname(os.path.abspath(__file__))
sys.path.insert(0, HERE)
import common  # noqa: E402
import check  # noqa: E402

_orig = common.lean_sources
common.lean_sources = lambda: [p for p in _orig() if not p.endswith(os.path.join('Proofs', 'C01.lean'))]

if __name__ == '__main__':
    check.main()
