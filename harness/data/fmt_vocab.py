"""re-format mongodb50_vocab.json compactly (dicts expanded down to depth 2, the rest in-line)"""
import collections
import json
import os
import sys

PATH = os.path.join(os.path.dirname(os.path.abspath(__file__)), 'mongodb50_vocab.json')


def fmt(v, depth, ind):
    if isinstance(v, dict) and depth < 2 and v:
        pad = ' ' * (ind + 1)
        items = ['%s%s: %s' % (pad, json.dumps(k), fmt(x, depth + 1, ind + 1)) for k, x in v.items()]
        return '{\n' + ',\n'.join(items) + '\n' + ' ' * ind + '}'
    return json.dumps(v)


def dump(V, path=PATH):
    with open(path, 'w') as fh:
        fh.write(fmt(V, 0, 0) + '\n')


if __name__ == '__main__':
    V = json.load(open(PATH), object_pairs_hook=collections.OrderedDict)
    dump(V)
