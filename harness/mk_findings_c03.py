"""(re)write the C03 entries of known_findings.json: each witness is run on the library and must
differ from what MongoDB defines (`expected`) before it is written as `known`; a witness on which
the library now answers `expected` and whose repair is listed in FIXED becomes a `fixed` record
(the witness is kept: props/c03.py runs it on every check as a regression case).  Run by hand;
never at check time."""
import json
import os
import sys

sys.path.insert(0, os.path.dirname(os.path.abspath(__file__)))
import common  # noqa: E402
import wire  # noqa: E402
from props import c03  # noqa: E402

D = [{'_id': 0, 'k': 1, 'a': 5}, {'_id': 1, 'k': 1, 'a': 0}, {'_id': 2, 'k': 2, 'a': 7}]
# (id, what, docs, other, pipeline, expected result as MongoDB defines it, or 'E' = rejected)
W = [
    ('countempty', '$count over no documents returns [{name: 0}]; MongoDB returns no document',
     [], [], [{'$count': 'n'}], []),
    ('groupnullempty', '$group with a constant _id over no documents returns one group (with '
     '$sum 0, $push []); MongoDB returns no document',
     [], [], [{'$group': {'_id': None, 'n': {'$sum': 1}}}], []),
    ('groupfalsyid', '$group with a falsy constant _id (0, "", false) reports _id: null',
     D, [], [{'$group': {'_id': 0, 'n': {'$sum': 1}}}], [{'n': 3, '_id': 0}]),
    ('groupboolnum', 'group keys mixing booleans and numbers: true == 1 for itertools.groupby, so '
     'they are merged when the sort leaves them adjacent (and kept apart otherwise)',
     [{'_id': 0, 'k': 1}, {'_id': 1, 'k': True}], [],
     [{'$group': {'_id': '$k', 'n': {'$sum': 1}}}], [{'n': 1, '_id': 1}, {'n': 1, '_id': True}]),
    ('groupdockey', 'document-valued group keys that differ only in field order are merged '
     '(dict ==); MongoDB compares documents field by field in order',
     [{'_id': 0, 'k': {'x': 1, 'y': 2}}, {'_id': 1, 'k': {'y': 2, 'x': 1}}], [],
     [{'$group': {'_id': '$k', 'n': {'$sum': 1}}}],
     [{'n': 1, '_id': {'x': 1, 'y': 2}}, {'n': 1, '_id': {'y': 2, 'x': 1}}]),
    ('addtosetfalsy', '$addToSet turns falsy values (0, "", false, [], {}) into null (`val or '
     'None`)', D, [], [{'$group': {'_id': None, 's': {'$addToSet': '$a'}}}],
     [{'s': [5, 0, 7], '_id': None}]),
    ('addtosetboolnum', '$addToSet tells its values apart with Python == : true and 1 (false and '
     '0) are one value; MongoDB keeps a boolean and a number apart',
     [{'_id': 0, 'a': True}, {'_id': 1, 'a': 1}], [],
     [{'$group': {'_id': None, 's': {'$addToSet': '$a'}}}], [{'s': [True, 1], '_id': None}]),
    ('firstmissing', '$first / $last skip the documents in which the expression is missing '
     '(MongoDB yields null for them)',
     [{'_id': 0}, {'_id': 1, 'a': 7}], [], [{'$group': {'_id': None, 'f': {'$first': '$a'}}}],
     [{'f': None, '_id': None}]),
    ('minmaxtypes', '$min / $max over values of several types raise TypeError (MongoDB orders '
     'them by BSON type)',
     [{'_id': 0, 'a': 1}, {'_id': 1, 'a': 'x'}], [], [{'$group': {'_id': None, 'm': {'$max': '$a'}}}],
     [{'m': 'x', '_id': None}]),
    ('sumbool', '$sum / $avg count booleans as 0 / 1 (MongoDB ignores non-numeric values)',
     [{'_id': 0, 'a': True}, {'_id': 1, 'a': 2}], [], [{'$group': {'_id': None, 's': {'$sum': '$a'}}}],
     [{'s': 2, '_id': None}]),
    ('unwindindex', 'includeArrayIndex is left out (not null) of a document kept by '
     'preserveNullAndEmptyArrays',
     [{'_id': 0}], [], [{'$unwind': {'path': '$l', 'preserveNullAndEmptyArrays': True,
                                     'includeArrayIndex': 'i'}}], [{'_id': 0, 'i': None}]),
    ('unwindindexparent', '$unwind with includeArrayIndex naming a dotted path whose parent does '
     'not exist raises KeyError (helpers.set_value_by_dot does not create the parent); MongoDB '
     'creates the sub-document',
     [{'_id': 1, 'l': [5, 6]}], [], [{'$unwind': {'path': '$l', 'includeArrayIndex': 'zz.i'}}],
     [{'_id': 1, 'l': 5, 'zz': {'i': 0}}, {'_id': 1, 'l': 6, 'zz': {'i': 1}}]),
    ('accmissing', 'an accumulator argument is evaluated without the missing-field convention of '
     "computed fields: {$push: {$add: ['$a', '$zz']}} on {a: 5} contributes nothing (p: []) where "
     'the rules give [null]',
     [{'_id': 0, 'a': 5}], [], [{'$group': {'_id': None, 'p': {'$push': {'$add': ['$a', '$zz']}}}}],
     [{'p': [None], '_id': None}]),
    ('lookupboolnum', '$lookup joins true to 1 (Python ==)',
     [{'_id': 0, 'k': True}], [{'_id': 10, 'fk': 1}],
     [{'$lookup': {'from': 'other', 'localField': 'k', 'foreignField': 'fk', 'as': 'j'}}],
     [{'_id': 0, 'k': True, 'j': []}]),
    ('limitdouble', '$limit / $skip reject a double without fraction ($limit: 2.0: "Expected an '
     'integer"); MongoDB takes it as the integer it denotes',
     D, [], [{'$limit': 2.0}], D[:2]),
    ('multiopstage', 'a stage document with no or several operators is accepted (MongoDB: "a '
     'pipeline stage specification object must contain exactly one field")',
     D, [], [{'$skip': 1, '$limit': 1}], 'E'),
    ('neglimit', '$limit <= 0 and a negative $skip are accepted and slice from the end '
     '(MongoDB rejects them)', D, [], [{'$limit': -1}], 'E'),
    ('addfieldsorder', '$addFields / $set with a dotted name writes into the sub-document it '
     'shares with its input, so a later field of the same stage sees the new value (MongoDB '
     'evaluates every expression against the input document)',
     [{'_id': 0, 'd': {'n': 1}}], [], [{'$addFields': {'d.n': 5, 'r': '$d.n'}}],
     [{'_id': 0, 'd': {'n': 5}, 'r': 1}]),
    ('projectidexcl', '$project rejects {field: 0, _id: 1} ("cannot include fields in an '
     'exclusion projection") although including _id is always allowed',
     D, [], [{'$project': {'a': 0, '_id': 1}}],
     [{'_id': 0, 'k': 1}, {'_id': 1, 'k': 1}, {'_id': 2, 'k': 2}]),
    ('bucketcrosstype', '$bucket compares a groupBy value that is no number (null, a string, a '
     'date, ...) with the boundaries by Python < (bisect): TypeError; MongoDB places every value '
     'in the BSON order, so such a value falls outside the numeric boundaries: default bucket',
     [{'_id': 0, 'a': 'x'}, {'_id': 1, 'a': 5}], [],
     [{'$bucket': {'groupBy': '$a', 'boundaries': [0, 10], 'default': 'other'}}],
     [{'count': 1, '_id': 0}, {'count': 1, '_id': 'other'}]),
    ('bucketboolnum', '$bucket counts a boolean groupBy value as the number 0 / 1 (Python: bool '
     'is an int); for MongoDB a boolean sorts after every number: default bucket',
     [{'_id': 0, 'a': True}], [],
     [{'$bucket': {'groupBy': '$a', 'boundaries': [0, 10], 'default': 'other'}}],
     [{'count': 1, '_id': 'other'}]),
    ('bucketdefaulttype', '$bucket places the default bucket by Python comparison with the last '
     'boundary (TypeError -> last): a null default is emitted last although MongoDB sorts the '
     'buckets by _id, null before every number (a boolean default is placed, and merged, as the '
     'number 0 / 1)',
     [{'_id': 0, 'a': 5}, {'_id': 1, 'a': 50}], [],
     [{'$bucket': {'groupBy': '$a', 'boundaries': [0, 10], 'default': None}}],
     [{'count': 1, '_id': None}, {'count': 1, '_id': 0}]),
    ('bucketdupbounds', '$bucket accepts equal neighbouring boundaries (sorted(b) == b); MongoDB '
     'requires them strictly ascending and rejects the stage',
     D, [], [{'$bucket': {'groupBy': '$a', 'boundaries': [0, 5, 5, 10], 'default': 'o'}}], 'E'),
    ('bucketdefaultinside', '$bucket accepts a numeric default inside [lowest, highest boundary) '
     '(and merges it with the bucket of the same _id when it equals a boundary); MongoDB requires '
     'it below the lowest or at / above the highest boundary and rejects the stage',
     D, [], [{'$bucket': {'groupBy': '$a', 'boundaries': [0, 10], 'default': 5}}], 'E'),
    ('bucketgroupbyconst', '$bucket accepts a constant groupBy (every document in one bucket); '
     'MongoDB requires a $-prefixed path or an expression object and rejects the stage',
     D, [], [{'$bucket': {'groupBy': 5, 'boundaries': [0, 10], 'default': 'o'}}], 'E'),
]


# id -> (fix: commit, what failed before it)
FIXED = {
    'countempty': '482a7bb',
    'groupnullempty': 'f041969',
    'groupfalsyid': 'fafbe61',
    'addtosetfalsy': '53f015f',
    'firstmissing': '3203d3e',
    'minmaxtypes': '94aa9ad',
    'sumbool': '2f66991',
    'unwindindex': '36bb490',
    'unwindindexparent': '5c2730e',
    'multiopstage': '2432305',
    'neglimit': '2ed0182',
    'projectidexcl': '9a73353',
    'accmissing': '6085e72',
    'addfieldsorder': 'eb8f57c',
    'limitdouble': '391498a',
}


def main():
    path = os.path.join(common.VERIF, 'known_findings.json')
    data = json.load(open(path))
    old = data['findings']
    data['findings'] = []
    for fid, what, docs, other, pipeline, expected in W:
        case = {'docs': docs, 'other': other, 'pipeline': pipeline}
        oids = wire.Oids()
        db = c03.new_db(case)
        py = c03.show(c03.agg(db.c, pipeline), oids)
        exp = 'E' if expected == 'E' else wire.encs(expected, oids)
        model = wire.run_driver([c03.case_line(case, oids)])[0]
        impl = model.split('|')[0].strip()
        if c03.norm(py) == exp:
            if fid not in FIXED:
                print('NOT A FINDING (python follows MongoDB):', fid, py)
                continue
            commit = FIXED[fid]
            print('%-16s FIXED by %s python=%s model-agrees=%s' % (
                fid, commit, wire.dec(py) if not py.startswith('!') else py, impl == py))
            w = c03.render(case)
            w.update({'expected': exp, 'python': py})
            data['findings'].append({
                'property': 'C03', 'id': fid, 'status': 'fixed', 'what': what, 'witness': w,
                'commit': commit,
                'fixed': 'fixed: property=C03 %s %s' % (commit, what)})
            continue
        if fid in FIXED:
            print('LISTED AS FIXED BUT STILL DEVIATES:', fid, py)
        print('%-16s python=%s model-agrees=%s' % (fid, wire.dec(py) if not py.startswith('!') else py,
                                                   impl == py))
        w = c03.render(case)
        w.update({'expected': exp, 'python': py})
        data['findings'].append({'property': 'C03', 'id': fid, 'status': 'known', 'what': what,
                                 'witness': w})
    # every entry keeps its place in the file; new ones go to the end
    new = {e['id']: e for e in data['findings']}
    merged = []
    for e in old:
        if e.get('property') != 'C03':
            merged.append(e)
        elif e['id'] in new:
            n = new.pop(e['id'])
            if n['status'] == 'fixed':
                # what the library answered while the finding was open stays on record
                ow = e.get('witness', {})
                before = ow.get('python_before_fix') or (ow.get('python') if e.get('status') == 'known'
                                                         else None)
                if before:
                    n['witness']['python_before_fix'] = before
            merged.append(n)
    merged.extend(new.values())
    data['findings'] = merged
    with open(path, 'w') as fh:
        json.dump(data, fh, indent=1, default=repr)
        fh.write('\n')


if __name__ == '__main__':
    main()
