"""Shared machinery of the checks: proof step (build + audit), verdicts, replays, evidence."""
import fcntl
import hashlib
import json
import os
import re
import subprocess
import sys
import time

VERIF = os.path.dirname(os.path.dirname(os.path.abspath(__file__)))
LEAN = os.path.join(VERIF, 'lean')
WORK = os.path.join(VERIF, '.work')
REPLAYS = os.path.join(VERIF, 'replays')
EVIDENCE = os.path.join(VERIF, 'evidence')
ALLOWED_AXIOMS = {'propext', 'Classical.choice', 'Quot.sound'}
FORBIDDEN = re.compile(
    r'\bsorry\b|\badmit\b|^\s*axiom\s|\bnative_decide\b|\bbv_decide\b|\bimplemented_by\b|'
    r'\bunsafe\s|maxHeartbeats\s+0\b', re.M)

TRUSTED_BASE = [
    'Lean 4.33.0 kernel (thorough tier: re-checked with leanchecker)',
    'axioms: propext, Classical.choice, Quot.sound only (audited per theorem on every run; '
    'no native_decide, no bv_decide, no sorry, no own axioms)',
    'Spec/*.lean as the rendering of MongoDB\'s rules stated by the property (no server offline)',
    'the hand-written model MongoModel/*.lean is tied to /repo only by the per-run '
    'correspondence check of this harness (generators, wire codec, canonicalisation)',
    'CPython 3.12 and the standard library',
]


def os_makedirs(p):
    if not os.path.isdir(p):
        os.makedirs(p, exist_ok=True)


class Ctx(object):
    def __init__(self, prop, tier, seed):
        self.prop = prop
        self.tier = tier
        self.seed = seed
        self.t0 = time.time()
        self.violations = []     # replay dicts
        self.known_seen = {}     # finding id -> count
        self.notes = []
        os_makedirs(WORK)
        os_makedirs(REPLAYS)
        os_makedirs(EVIDENCE)

    def quick(self):
        return self.tier == 'quick'

    def n(self, quick, thorough):
        return quick if self.tier == 'quick' else thorough

    def violation(self, replay, no_input=False, rank=None):
        """record a violation; replay is a JSON-able dict describing the failing case.
        Replay files are written by finish(), best (lowest rank = most convincing) first."""
        replay = dict(replay)
        replay.setdefault('property', self.prop)
        replay.setdefault('seed', self.seed)
        replay.setdefault('tier', self.tier)
        if rank is None:
            rank = len(json.dumps(replay, default=repr))
        self.violations.append((rank, len(self.violations), replay, no_input))

    def too_many(self):
        return len(self.violations) >= 200


def sh(cmd, cwd=None, timeout=3600, env=None):
    p = subprocess.run(cmd, cwd=cwd, stdout=subprocess.PIPE, stderr=subprocess.STDOUT,
                       timeout=timeout, env=env)
    return p.returncode, p.stdout.decode('utf-8', 'replace')


class LakeLock(object):
    """serialise lake invocations (several checks may run at once)"""

    def __enter__(self):
        os_makedirs(WORK)
        self.fh = open(os.path.join(WORK, 'lake.lock'), 'w')
        fcntl.flock(self.fh, fcntl.LOCK_EX)
        return self

    def __exit__(self, *a):
        fcntl.flock(self.fh, fcntl.LOCK_UN)
        self.fh.close()


def strip_comments(src):
    src = re.sub(r'/-.*?-/', '', src, flags=re.S)
    src = re.sub(r'--[^\n]*', '', src)
    return src


def lean_sources():
    out = []
    for root, dirs, files in os.walk(LEAN):
        dirs[:] = [d for d in dirs if d != '.lake']
        for f in files:
            if f.endswith('.lean'):
                out.append(os.path.join(root, f))
    return sorted(out)


def import_closure(roots):
    """project-local .lean files reachable through `import` from the given module names"""
    seen = {}
    todo = list(roots)
    while todo:
        m = todo.pop()
        if m in seen:
            continue
        path = os.path.join(LEAN, *m.split('.')) + '.lean'
        if not os.path.exists(path):
            continue
        seen[m] = path
        for im in re.findall(r'^import\s+(\S+)', open(path).read(), re.M):
            todo.append(im)
    return sorted(seen.values())


def theorems_of(prop):
    """names of the property theorems stated in Props/<prop>.lean"""
    path = os.path.join(LEAN, 'Props', prop + '.lean')
    src = strip_comments(open(path).read())
    ns = re.search(r'^namespace\s+(\S+)', src, re.M)
    prefix = ns.group(1) + '.' if ns else ''
    return [prefix + m.group(1) for m in re.finditer(r'^theorem\s+(\S+)', src, re.M)]


def proof_step(ctx, extra_targets=()):
    """build the property's theorems and the driver, audit axioms; returns a dict"""
    prop = ctx.prop
    res = {'ok': False, 'obligations': 0, 'discharged': 0, 'log': '', 'theorems': [],
           'checker_cmd': 'cd lean && lake build Props.%s mmdriver && lake env lean '
                          '<audit file with #print axioms for every theorem of Props/%s.lean>'
                          % (prop, prop)}
    with LakeLock():
        targets = ['Props.' + prop, 'mmdriver'] + list(extra_targets)
        rc, out = sh(['lake', 'build'] + targets, cwd=LEAN, timeout=3000)
        res['log'] = out[-4000:]
        if rc != 0:
            res['broken'] = 'lake build failed'
            try:
                res['obligations'] = len(theorems_of(prop))
            except Exception:
                pass
            return res
        thms = theorems_of(prop)
        res['obligations'] = len(thms)
        audit = os.path.join(WORK, 'Audit_%s.lean' % prop)
        with open(audit, 'w') as fh:
            fh.write('import Props.%s\n' % prop)
            for t in thms:
                fh.write('#print axioms %s\n' % t)
        rc, out = sh(['lake', 'env', 'lean', audit], cwd=LEAN, timeout=1200)
    if rc != 0:
        res['broken'] = 'axiom audit failed to run'
        res['log'] = out[-4000:]
        return res
    ax = {}
    for m in re.finditer(r"'([^']+)' depends on axioms: \[([^\]]*)\]", out.replace('\n', ' ')):
        ax[m.group(1)] = set(a.strip() for a in m.group(2).split(',') if a.strip())
    for m in re.finditer(r"'([^']+)' does not depend on any axioms", out):
        ax[m.group(1)] = set()
    bad = []
    for t in thms:
        if t not in ax:
            bad.append((t, 'no audit output'))
        elif not ax[t] <= ALLOWED_AXIOMS:
            bad.append((t, sorted(ax[t] - ALLOWED_AXIOMS)))
    res['theorems'] = [{'name': t, 'axioms': sorted(ax.get(t, []))} for t in thms]
    res['discharged'] = len(thms) - len(bad)
    hits = []
    for p in import_closure(['Props.' + prop, 'Driver.Main'] + list(extra_targets)):
        for m in FORBIDDEN.finditer(strip_comments(open(p).read())):
            hits.append('%s: %s' % (os.path.relpath(p, LEAN), m.group(0).strip()))
    if bad:
        res['broken'] = 'inadmissible axioms: %r' % (bad,)
    elif hits:
        res['broken'] = 'forbidden token(s): %r' % (hits[:5],)
    elif not thms:
        res['broken'] = 'no theorems found'
    else:
        res['ok'] = True
    if ctx.tier == 'thorough' and res['ok']:
        with LakeLock():
            rc, out = sh(['lake', 'env', 'leanchecker', 'Props.' + prop], cwd=LEAN, timeout=3000)
        res['leanchecker'] = 'ok' if rc == 0 else 'FAILED: ' + out[-500:]
        if rc != 0:
            res['ok'] = False
            res['broken'] = 'leanchecker rejected Props.' + prop
    return res


class PyCoverage(object):
    """line coverage of the real library (the anchor files of the property) while the
    correspondence and the python-only oracles run: which functions of the anchored code the tie
    between model and code actually reached in this run.  Measurement only, never a verdict."""

    def __init__(self, prop):
        self.prop = prop
        self.cov = None
        self.files = []
        self.names = set()
        try:
            for line in open(os.path.join(VERIF, 'properties.jsonl')):
                p = json.loads(line)
                if p['id'] == prop:
                    self.files = [f for f in p['anchors']['files'] if f.endswith('.py')]
                    import re
                    text = ' '.join(m.get('name', '') for m in p['anchors'].get('mechanism', []))
                    self.names = set(t for t in re.findall(r'[A-Za-z_][A-Za-z_0-9]*', text)
                                     if len(t) > 3)
        except Exception:  # pylint: disable=broad-except
            pass

    def start(self):
        if os.environ.get('VERIF_PYCOV') == '0' or not self.files:
            return
        try:
            os.environ.setdefault('COVERAGE_CORE', 'sysmon')
            import coverage
            import mongomock
            root = os.path.dirname(os.path.dirname(os.path.abspath(mongomock.__file__)))
            self.root = root
            self.cov = coverage.Coverage(data_file=None, branch=False,
                                         include=[os.path.join(root, f) for f in self.files])
            self.cov.start()
        except Exception:  # pylint: disable=broad-except
            self.cov = None

    def stop(self):
        """{file: {lines, executed, functions, functions_never_entered: [...]}}"""
        if self.cov is None:
            return None
        import ast
        out = {}
        try:
            self.cov.stop()
            data = self.cov.get_data()
            for f in self.files:
                path = os.path.join(self.root, f)
                try:
                    _, stmts, _, missing, _ = self.cov.analysis2(path)
                except Exception:  # pylint: disable=broad-except
                    continue
                hit = set(stmts) - set(missing)
                never, nfun, anchored = [], 0, {}
                tree = ast.parse(open(path).read())

                def walk(node, prefix):
                    nonlocal nfun
                    for ch in ast.iter_child_nodes(node):
                        if isinstance(ch, (ast.FunctionDef, ast.AsyncFunctionDef)):
                            nfun += 1
                            body = set()
                            for st in ch.body:
                                body.update(range(st.lineno, (st.end_lineno or st.lineno) + 1))
                            body &= set(stmts)
                            if body and not (body & hit):
                                never.append(prefix + ch.name)
                            if body and ch.name in self.names:
                                anchored[prefix + ch.name] = '%d/%d' % (len(body & hit), len(body))
                            walk(ch, prefix + ch.name + '.')
                        elif isinstance(ch, ast.ClassDef):
                            walk(ch, prefix + ch.name + '.')
                        else:
                            walk(ch, prefix)
                walk(tree, '')
                out[f] = {'statements': len(stmts), 'executed': len(hit),
                          'percent': round(100.0 * len(hit) / max(1, len(stmts)), 1),
                          'functions': nfun, 'functions_never_entered': never,
                          'anchored_functions_statements_executed': anchored}
            del data
        except Exception as e:  # pylint: disable=broad-except
            return {'error': repr(e)}
        return out


def load_known(prop):
    path = os.path.join(VERIF, 'known_findings.json')
    if not os.path.exists(path):
        return []
    data = json.load(open(path))
    return [e for e in data.get('findings', []) if e.get('property') == prop]


def case_hash(obj):
    return hashlib.sha1(json.dumps(obj, sort_keys=True, default=repr).encode()).hexdigest()


def write_evidence(ctx, proof, cov, assumptions=()):
    coverage = {
        'obligations': proof.get('obligations', 0),
        'discharged': proof.get('discharged', 0),
        'checker_cmd': proof.get('checker_cmd', ''),
        'trusted_base': TRUSTED_BASE,
        'theorems': proof.get('theorems', []),
        'proof_step_ok': bool(proof.get('ok')),
    }
    if 'leanchecker' in proof:
        coverage['leanchecker'] = proof['leanchecker']
    if proof.get('broken'):
        coverage['proof_step_broken'] = proof['broken']
    coverage.update(cov)
    ev = {
        'property_id': ctx.prop,
        'tier': ctx.tier,
        'seed': ctx.seed,
        'level': 'proof',
        'coverage': coverage,
        'assumptions': list(assumptions),
        'wall_s': round(time.time() - ctx.t0, 2),
        'violations': len(ctx.violations),
    }
    with open(os.path.join(EVIDENCE, ctx.prop + '.json'), 'w') as fh:
        json.dump(ev, fh, indent=1, default=repr)
    return ev


def finish(ctx):
    """write the replay files (most convincing first) and print the verdict lines"""
    vs = sorted(ctx.violations, key=lambda v: (v[3], v[0], v[1]))
    # replay files of an earlier run with the same seed are stale now
    import glob
    for old in glob.glob(os.path.join(REPLAYS, '%s-seed%d-*.json' % (ctx.prop, ctx.seed))):
        try:
            os.remove(old)
        except OSError:
            pass
    for k, (rank, _, replay, no_input) in enumerate(vs[:10]):
        path = os.path.join(REPLAYS, '%s-seed%d-%d.json' % (ctx.prop, ctx.seed, k))
        with open(path, 'w') as fh:
            json.dump(replay, fh, indent=1, default=repr)
        line = 'VIOLATION property=%s replay=%s' % (ctx.prop, os.path.relpath(path, VERIF))
        if no_input:
            line += ' no-failing-input-found'
        print(line)
    sys.stdout.flush()
    return 1 if ctx.violations else 0
