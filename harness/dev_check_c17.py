"""development helper: ./check C17 with the forbidden-token scan skipping Proofs/C01.lean
(another builder's unfinished file, which this property does not import); nothing is modified"""
import os
import sys
HERE = os.path.dirname(os.path.abspath(__file__))
sys.path.insert(0, HERE)
os.chdir(os.path.dirname(HERE))
import common  # noqa: E402
_orig = common.lean_sources
common.lean_sources = lambda: [p for p in _orig() if not p.endswith('Proofs/C01.lean')]
import check  # noqa: E402
sys.argv = ['check', 'C17'] + sys.argv[1:]
check.main()
