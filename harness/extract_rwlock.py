"""C19 translator: derive the lock protocol of mongomock/thread.py by TRACING the real code.

`mongomock.thread.threading` is replaced by a recording fake whose Lock/RLock objects log every
acquire/release and never block; the light-switch counters are observed through a recording
property.  In ONE thread we run reader and writer sections nested three deep (so the counters
take the values 1, 2, 3), once ending normally and once with an exception raised inside the
innermost `with`.  For each of reader-acquire, reader-release (normal / after a raise),
writer-acquire, writer-release (normal / after a raise) the three observations are merged into
one list of primitive steps

    acq l | rel l | inc c | dec c | acqIf c k l | relIf c k l        (see MongoModel/RWLock.lean)

where an operation seen only when the counter has just become k is conditional on `== k`.  The
merged list is re-executed against every observation; if it does not reproduce them exactly the
step list is replaced by `[.unknown]` (the model then gets stuck there and no proof goes through).
"""
import os
import threading as real_threading

import mongomock.thread as mthread

LOCK_ATTRS = [  # (LockId of the model, how to reach the object from an RWLock)
    ('noReaders', lambda rw: rw._no_readers),
    ('noWriters', lambda rw: rw._no_writers),
    ('readersQueue', lambda rw: rw._readers_queue),
    ('readMutex', lambda rw: rw._read_switch._mutex),
    ('writeMutex', lambda rw: rw._write_switch._mutex),
]
SWITCH_ATTRS = [('readCtr', '_read_switch'), ('writeCtr', '_write_switch')]
DEPTH = 3


class Boom(Exception):
    pass


class Hard(BaseException):
    """an exception that is not an `Exception` (like KeyboardInterrupt, SystemExit, or the
    GeneratorExit sent into an abandoned `documents` generator)"""


RAISE_KINDS = [('', Boom), ('#base', Hard), ('#genexit', GeneratorExit)]


class FakeLock(object):
    def __init__(self, kind, log):
        self.kind = kind
        self.log = log

    def acquire(self, blocking=True, timeout=-1):
        self.log.append(('acq', id(self)))
        return True

    def release(self):
        self.log.append(('rel', id(self)))

    __enter__ = acquire

    def __exit__(self, *a):
        self.release()


class FakeThreading(object):
    """stands in for the `threading` module inside mongomock.thread"""

    def __init__(self, log):
        self._log = log

    def Lock(self):
        return FakeLock('Lock', self._log)

    def RLock(self):
        return FakeLock('RLock', self._log)

    def __getattr__(self, name):
        return getattr(real_threading, name)


def _recording_switch(sw, name, log):
    base = type(sw)

    class Rec(base):
        @property
        def _counter(self):
            return self.__dict__['_c19_counter']

        @_counter.setter
        def _counter(self, v):
            log.append(('ctr', name, self.__dict__['_c19_counter'], v))
            self.__dict__['_c19_counter'] = v

    sw.__dict__['_c19_counter'] = sw.__dict__.pop('_counter')
    sw.__class__ = Rec


def _nest(rw, kind, depth, log, raising):
    log.append(('mark', 'enter', depth))
    try:
        with getattr(rw, kind)():
            log.append(('mark', 'in', depth))
            if depth < DEPTH:
                _nest(rw, kind, depth + 1, log, raising)
            elif raising:
                raise raising()
    finally:
        log.append(('mark', 'left', depth))


def trace():
    """returns (lock kinds by LockId, {sequence name: [observations]}); an observation is
    (counter values before, [events])"""
    log = []
    orig = mthread.threading
    mthread.threading = FakeThreading(log)
    try:
        rw = mthread.RWLock()
        names, kinds = {}, {}
        for lid, get in LOCK_ATTRS:
            try:
                obj = get(rw)
                names[id(obj)] = lid
                kinds[lid] = getattr(obj, 'kind', None)
            except AttributeError:
                kinds[lid] = None
        for cname, attr in SWITCH_ATTRS:
            try:
                _recording_switch(getattr(rw, attr), cname, log)
            except (AttributeError, KeyError):
                pass
        obs = {}
        counters = {'readCtr': 0, 'writeCtr': 0}
        for kind, key in (('reader', 'r'), ('writer', 'w')):
            for suffix, raising in [('', False)] + RAISE_KINDS:
                del log[:]
                try:
                    _nest(rw, kind, 1, log, raising)
                except BaseException as e:  # pylint: disable=broad-except
                    if not raising or not isinstance(e, raising):
                        raise
                segs, cur, before = [], [], dict(counters)
                for ev in log:
                    if ev[0] == 'mark':
                        segs.append((ev, before, cur))
                        cur, before = [], dict(counters)
                        continue
                    if ev[0] == 'ctr':
                        counters[ev[1]] = ev[3]
                        cur.append(ev)
                    else:
                        cur.append((ev[0], names.get(ev[1], 'unknownLock')))
                # the segment preceding ('mark','in',d) is acquire no. d; the one preceding
                # ('mark','left',d) is release no. d
                for (mark, before_seg, evs) in segs:
                    if mark[1] == 'in' and not raising:
                        obs.setdefault(key + 'Acq', []).append((before_seg, evs))
                    elif mark[1] == 'left':
                        obs.setdefault(key + ('RelRaise' + suffix if raising else 'Rel'),
                                       []).append((before_seg, evs))
        return kinds, obs
    finally:
        mthread.threading = orig


def _abstract(ev):
    if ev[0] == 'ctr':
        if ev[3] == ev[2] + 1:
            return ('inc', ev[1])
        if ev[3] == ev[2] - 1:
            return ('dec', ev[1])
        return ('unknown',)
    return ev


def merge(observations):
    """merge the observations of one sequence into a step list, or None"""
    runs = [[_abstract(e) for e in evs] for _, evs in observations]
    base_i = max(range(len(runs)), key=lambda i: len(runs[i]))
    base = runs[base_i]
    if any(e[0] == 'unknown' or (e[0] in ('acq', 'rel') and e[1] == 'unknownLock') for e in base):
        return None
    present = [[False] * len(runs) for _ in base]
    for r, run in enumerate(runs):
        j = 0
        for e in run:
            while j < len(base) and base[j] != e:
                j += 1
            if j == len(base):
                return None
            present[j][r] = True
            j += 1
    steps = []
    counters = dict(observations[base_i][0])
    last = None
    for j, e in enumerate(base):
        if e[0] in ('inc', 'dec'):
            counters[e[1]] += 1 if e[0] == 'inc' else -1
            last = e[1]
        if all(present[j]):
            steps.append(e)
        elif e[0] in ('acq', 'rel') and last is not None:
            steps.append((e[0] + 'If', last, counters[last], e[1]))
        else:
            return None
    for (before, evs), run in zip(observations, runs):
        if simulate(steps, dict(before)) != run:
            return None
    return steps


def simulate(steps, counters):
    out = []
    for s in steps:
        if s[0] == 'inc':
            counters[s[1]] += 1
            out.append(s)
        elif s[0] == 'dec':
            counters[s[1]] -= 1
            out.append(s)
        elif s[0] in ('acqIf', 'relIf'):
            if counters[s[1]] == s[2]:
                out.append((s[0][:3], s[3]))
        else:
            out.append(s)
    return out


def lean_step(s):
    if s[0] in ('acq', 'rel'):
        return '.%s .%s' % (s[0], s[1])
    if s[0] in ('inc', 'dec'):
        return '.%s .%s' % (s[0], s[1])
    k = s[2]
    return '.%s .%s %s .%s' % (s[0], s[1], k if k >= 0 else '(%d)' % k, s[3])


SEQS = ['rAcq', 'rRel', 'rRelRaise', 'wAcq', 'wRel', 'wRelRaise']


def extract():
    """returns (protocol dict, notes)"""
    kinds, obs = trace()
    notes = []
    proto = {'reentrant': [kinds.get(lid) == 'RLock' for lid, _ in LOCK_ATTRS]}
    for lid, _ in LOCK_ATTRS:
        if kinds.get(lid) is None:
            notes.append('lock %s not found on RWLock' % lid)
    for name in SEQS:
        o = obs.get(name, [])
        steps = merge(o) if len(o) == DEPTH else None
        if name.endswith('RelRaise'):
            # the release must not depend on WHICH exception leaves the section
            for suffix, exc in RAISE_KINDS[1:]:
                if obs.get(name + suffix, []) != o:
                    notes.append('sequence %s differs when the section is left by %s (not an '
                                 'Exception subclass)' % (name, exc.__name__))
                    steps = None
        if steps is None:
            notes.append('sequence %s could not be translated' % name)
            proto[name] = None
        else:
            proto[name] = steps
    return proto, notes


def render(proto, notes):
    def lst(steps):
        if steps is None:
            return '[.unknown]'
        return '[' + ', '.join(lean_step(s) for s in steps) + ']'
    lines = ['-- GENERATED by harness/extract_rwlock.py from mongomock/thread.py — do not edit',
             'import MongoModel.RWLock', 'namespace MongoModel.Generated',
             'open MongoModel.RWLock', '']
    for n in notes:
        lines.append('-- NOTE: ' + n)
    lines.append('def protocol : Protocol :=')
    lines.append('  { reentrant := [%s]' % ', '.join('true' if b else 'false'
                                                    for b in proto['reentrant']))
    for name in SEQS:
        lines.append('    %s := %s' % (name, lst(proto[name])))
    lines[-1] += ' }'
    lines += ['', 'end MongoModel.Generated', '']
    return '\n'.join(lines)


def write_if_changed(path, text):
    if os.path.exists(path) and open(path).read() == text:
        return False
    with open(path, 'w') as fh:
        fh.write(text)
    return True


if __name__ == '__main__':
    p, n = extract()
    print(render(p, n))
