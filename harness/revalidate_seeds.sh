#!/bin/sh
# development: re-validate every stored seeded regression against /repo's current HEAD:
# does the patch still apply, does the suite pass with it, does the demo fail with / pass without
# it, and does the quick check of its property report a VIOLATION.  Writes
# seeded/<name>/revalidated.json and prints one line per seed.  Scratch worktree under /tmp,
# removed at the end; /repo itself is never touched.
#   harness/revalidate_seeds.sh [name ...]
cd "$(dirname "$0")/.." || exit 2
V=$(pwd)
WT=/tmp/reval_wt
git -C /repo worktree remove --force $WT 2>/dev/null
rm -rf $WT
git -C /repo worktree add --detach $WT HEAD -q || exit 2
head=$(git -C /repo log --format=%h -1)
names="$*"
[ -z "$names" ] && names=$(ls seeded)
for n in $names; do
  d=$V/seeded/$n
  [ -f $d/patch.diff ] || continue
  id=$(echo $n | cut -d- -f1)
  git -C $WT checkout -q -- . 2>/dev/null
  if ! git -C $WT apply $d/patch.diff 2>/dev/null && \
     ! (cd $WT && patch -p1 -F3 -s --no-backup-if-mismatch < $d/patch.diff >/dev/null 2>&1); then
    git -C $WT checkout -q -- . 2>/dev/null; git -C $WT clean -fdq 2>/dev/null
    echo "$n: patch does not apply at $head"
    printf '{"head": "%s", "applies": false}\n' $head > $d/revalidated.json
    continue
  fi
  git -C $WT diff > $d/patch.diff      # keep the stored patch applicable to the current head
  suite=$(cd $WT && PYTHONPATH=$WT /venv/bin/python -m pytest -q -p no:cacheprovider tests 2>&1 | tail -1)
  with=$(cd $d && PYTHONPATH=$WT /venv/bin/python -m pytest -q -p no:cacheprovider demo_test.py 2>&1 | tail -1)
  out=$(VERIF_DEV_REPO=$WT PYTHONPATH=$WT ./check $id --tier quick 2>&1 | grep '^VIOLATION' | head -1)
  git -C $WT checkout -q -- . ; git -C $WT clean -fdq 2>/dev/null
  without=$(cd $d && PYTHONPATH=$WT /venv/bin/python -m pytest -q -p no:cacheprovider demo_test.py 2>&1 | tail -1)
  git -C $V checkout -- lean/Generated evidence 2>/dev/null
  echo "$n: suite[$suite] with[$with] without[$without] check[$out]"
  python3 - "$d" "$head" "$suite" "$with" "$without" "$out" <<'PY'
import json, sys
d, head, suite, w, wo, out = sys.argv[1:7]
json.dump({'head': head, 'applies': True, 'suite_with_change': suite, 'demo_with_change': w,
           'demo_without_change': wo, 'quick_check': out or 'no VIOLATION line'},
          open(d + '/revalidated.json', 'w'), indent=1)
PY
done
git -C /repo worktree remove --force $WT
rm -rf $WT
