"""Development tool (not run by the check): list what the C20 translators find on the current
/repo as `known_findings.json` entries (status "known").  Review the output before keeping it:
an entry here is a claim that the unchanged code really fails the property on that witness.

    /venv/bin/python harness/mk_findings_c20.py            # print
    /venv/bin/python harness/mk_findings_c20.py --write    # replace the C20 entries of the file
"""
import json
import os
import sys

HERE = os.path.dirname(os.path.abspath(__file__))
sys.path.insert(0, HERE)

import extract_options  # noqa: E402
import extract_vocab  # noqa: E402

CLASS_WHAT = {
    'queryFieldDeadEnd': 'lazy validation: when the path of a condition reaches no value (a field '
                         'name over an array of scalars, an index past the end of an array: no '
                         'candidate value) the operators of the condition are never looked at, so '
                         'ANY unknown $operator is accepted silently (a server rejects it)',
    'updateNoMatch': 'lazy validation: when no document matches (and no upsert) the update '
                     'operators are never looked at, so ANY unknown $operator is accepted silently '
                     '(a server rejects it)',
    'addToSetModifier': '$addToSet with $each looks at nothing but $each: ANY other clause next to '
                        '$each is dropped silently (a server rejects it)',
}
REPRESENTATIVE = '$typo'


def findings():
    out = []
    T, entries, meta = extract_vocab.probe_vocab(0)
    lazy = sorted(CLASS_WHAT, key=extract_vocab.POSITIONS.index)
    for pos in lazy:
        e = [x for x in entries if x['pos'] == pos and x['name'] == REPRESENTATIVE][0]
        assert e['disp'] == 'ignored', e
        out.append({'property': 'C20', 'id': 'ignored:%s:*' % pos, 'status': 'known',
                    'what': CLASS_WHAT[pos],
                    'witness': {'kind': 'vocab', 'position': pos, 'name': '*',
                                'representative': REPRESENTATIVE, 'probe': e['probe'],
                                'same_result_as': e['baseline'], 'observed': 'ignored'}})
    for e in entries:
        if e['disp'] == 'ignored' and e['pos'] not in lazy:
            out.append({'property': 'C20', 'id': 'ignored:%s:%s' % (e['pos'], e['name']),
                        'status': 'known',
                        'what': '%s at position %s is accepted and takes no part in the result '
                                '(LOGICAL_OPERATOR_MAP[%r] returns a generator object, which is '
                                'always truthy)' % (e['name'], e['pos'], e['name']),
                        'witness': {'kind': 'vocab', 'position': e['pos'], 'name': e['name'],
                                    'probe': e['probe'], 'same_result_as': e['baseline'],
                                    'observed': 'ignored'}})
    for e in extract_options.probe_options():
        if e['disp'] == 'unprobed':
            continue
        relevant = e['option'] != 'hint' or e['write']
        key = '%s.%s:%s' % (e['cls'], e['method'], e['option'])
        if not e['optedOut'] and relevant and e['disp'] == 'accepted':
            out.append({'property': 'C20', 'id': 'silent-option:' + key, 'status': 'known',
                        'what': '%s.%s(%s=...) drops the option silently (%s)' % (
                            e['cls'], e['method'], e['option'],
                            'named parameter' if e['named'] else 'swallowed by **kwargs'),
                        'witness': {'kind': 'option', 'cls': e['cls'], 'method': e['method'],
                                    'option': e['option'], 'opted_out': False, 'call': e['call'],
                                    'observed': 'accepted'}})
        if e['optedOut'] and e['disp'] == 'raisesNotImplemented':
            out.append({'property': 'C20', 'id': 'optout-ineffective:' + key, 'status': 'known',
                        'what': '%s.%s(%s=...) still raises NotImplementedError after '
                                'ignore_feature(%r)' % (e['cls'], e['method'], e['option'],
                                                        e['option']),
                        'witness': {'kind': 'option', 'cls': e['cls'], 'method': e['method'],
                                    'option': e['option'], 'opted_out': True, 'call': e['call'],
                                    'observed': 'raisesNotImplemented'}})
    return out


if __name__ == '__main__':
    fs = findings()
    if '--write' in sys.argv:
        path = os.path.join(os.path.dirname(HERE), 'known_findings.json')
        data = json.load(open(path))
        data['findings'] = [f for f in data['findings'] if f.get('property') != 'C20'] + fs
        with open(path, 'w') as fh:
            json.dump(data, fh, indent=1)
            fh.write('\n')
        print('wrote %d C20 entries' % len(fs))
    else:
        for f in fs:
            print(f['id'], '|', f['what'])
        print(len(fs))
