"""dev: run the C04 module's correspondence without the proof step; summarise deviations"""
import sys, json, collections
sys.path.insert(0, '.')
import common
from props import c04
seed = int(sys.argv[1]) if len(sys.argv) > 1 else 0
tier = sys.argv[2] if len(sys.argv) > 2 else 'quick'
ctx = common.Ctx('C04', tier, seed)
cov = c04.run(ctx, {}, True)
cov.pop('samples', None)
print(json.dumps(cov, indent=0, default=repr)[:4000])
print('known seen', ctx.known_seen)
kinds = collections.Counter()
byreason = collections.defaultdict(list)
for rank, _, r, no_input in ctx.violations:
    kinds[r['kind'][:50]] += 1
    byreason[tuple(r.get('reasons', []))].append(r)
print(len(ctx.violations), 'violations', dict(kinds))
for k, rs in sorted(byreason.items(), key=lambda kv: -len(kv[1]))[:int(sys.argv[3]) if len(sys.argv) > 3 else 12]:
    r = min(rs, key=lambda r: len(repr(r['expr'])))
    print(len(rs), k, '\n    ', json.dumps({x: r.get(x) for x in ('kind', 'context', 'py', 'impl', 'spec', 'expr')}, default=repr)[:700], '\n     doc', json.dumps(r['docs'][r.get('doc_index', 0)], default=repr)[:300])
