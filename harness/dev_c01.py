import sys, random, collections
sys.path.insert(0, '/verif/harness')
import wire, gen, gen_filter
from mongomock.filtering import filter_applies
wire.assert_repo()
seed = int(sys.argv[1]) if len(sys.argv) > 1 else 0
N = int(sys.argv[2]) if len(sys.argv) > 2 else 5000
rng = random.Random(seed)
cases = []
lines = []
for i in range(N):
    oids = wire.Oids()
    g = gen.Gen(rng, oids)
    fg = gen_filter.FilterGen(g)
    d = g.doc(3, maxf=4)
    f = fg.filter(d)
    try:
        line = 'match ' + wire.encs(f, oids) + ' ' + wire.encs(d, oids)
    except wire.Unencodable:
        continue
    try:
        py = 'T' if filter_applies(f, d) else 'F'
    except Exception as e:
        py = '!' + wire.err_name(e)
    cases.append((f, d, py))
    lines.append(line)
out = wire.run_driver(lines)
cnt = collections.Counter()
bad = 0
for (f, d, py), m in zip(cases, out):
    cnt[(py, m)] += 1
    if m != py and m != '!?unmodelled':
        bad += 1
        if bad <= 15:
            print('DIFF py=%s model=%s\n  f=%r\n  d=%r' % (py, m, f, d))
print(cnt)
print('bad', bad, 'of', len(cases))
