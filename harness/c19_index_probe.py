"""C19: the index dictionaries of a collection under concurrent index creation / drops, judged
directly on the real `Collection` (mongomock/collection.py + store.py), no model involved.

`indexes` / `_ttl_indexes` are changed outside every lock section (store.py `create_index`,
`drop_index`), so every walk over them that can be interrupted has to walk a snapshot.  The walks
that CAN be interrupted at a lock operation are the ones whose loop body takes the collection
lock: the unique check of a write (`_ensure_uniques`: one find per unique index) and the TTL
expiry pass (`_remove_expired_documents`: one `_expire_documents` per TTL index).  For each of a
few (walker operation, index operation) pairs ALL single-preemption schedules are run under the
deterministic scheduler of `sched.py`: the walker runs k scheduler steps (k = 0, 1, 2, … until it
finishes on its own), then the index operation runs to completion, then the walker continues.
The property: both operations complete, no exception of any kind, the lock is free afterwards.

The listing generator `list_indexes()` hands items to its consumer one by one; the consumer (or
another thread) creating / dropping an index between two items must not break the listing
(pymongo returns the listing as of the time of the command): probed without threads.
"""
import mongomock
import mongomock.thread as mthread

import sched


def _collection(s, setup):
    c = mongomock.MongoClient().db.c19
    setup(c)
    orig = mthread.threading
    mthread.threading = sched.CoopThreading(s)
    try:
        rw = mthread.RWLock()
    finally:
        mthread.threading = orig
    c._store._rwlock = sched.MonitorRWLock(rw, s)
    return c


def run_pair(setup, walker, mutator, k):
    """walker = thread 0, mutator = thread 1 (stopped at an explicit switch point before its
    first action); returns (status, exceptions [(thread, text)], steps thread 0 took before the
    mutator ran, lock free, exclusion violated)"""
    s = sched.Scheduler()
    c = _collection(s, setup)

    def body_for(op, stop_first):
        def body(w):
            try:
                if stop_first:
                    s.hook(('yield',))
                op(c)
            except Exception as e:  # pylint: disable=broad-except
                w.events.append((0, '%s: %s' % (type(e).__name__, e)))
        return body
    s.add_worker(body_for(walker, False))
    s.add_worker(body_for(mutator, True))
    status, used, _ = s.run([0] * k + [1] * 400)
    excs = [(w.idx, name) for w in s.workers for (_, name) in w.events]
    before = 0
    for t in used:
        if t != 0:
            break
        before += 1
    free = all(l.count == 0 for l in s.locks)
    return status, excs, before, free, s.exclusion_violated


def _setup_unique(c):
    c.create_index('u', unique=True)
    c.create_index('x')
    c.insert_one({'_id': 1, 'u': 1, 'x': 1})


def _setup_ttl(c):
    c.create_index('t', expireAfterSeconds=1)
    c.insert_one({'_id': 1, 't': sched.OLD})
    c.insert_one({'_id': 2})


PAIRS = [
    # (name, setup text, setup, walker text, walker, mutator text, mutator)
    ('unique check of insert_one vs create_index', _setup_unique,
     "c.insert_one({'_id': 2, 'u': 2})", lambda c: c.insert_one({'_id': 2, 'u': 2}),
     "c.create_index('z')", lambda c: c.create_index('z')),
    ('unique check of insert_one vs drop_index', _setup_unique,
     "c.insert_one({'_id': 2, 'u': 2})", lambda c: c.insert_one({'_id': 2, 'u': 2}),
     "c.drop_index('x_1')", lambda c: c.drop_index('x_1')),
    ('unique check of update_one vs create_index', _setup_unique,
     "c.update_one({'_id': 1}, {'$set': {'u': 5}})",
     lambda c: c.update_one({'_id': 1}, {'$set': {'u': 5}}),
     "c.create_index('z', unique=True)", lambda c: c.create_index('z', unique=True)),
    ('unique check of replace_one vs drop_indexes', _setup_unique,
     "c.replace_one({'_id': 1}, {'u': 7})", lambda c: c.replace_one({'_id': 1}, {'u': 7}),
     "c.drop_indexes()", lambda c: c.drop_indexes()),
    ('TTL expiry pass of count_documents vs create_index(expireAfterSeconds)', _setup_ttl,
     "c.count_documents({})", lambda c: c.count_documents({}),
     "c.create_index('t2', expireAfterSeconds=5)",
     lambda c: c.create_index('t2', expireAfterSeconds=5)),
    ('TTL expiry pass of find_one vs drop_index of the TTL index', _setup_ttl,
     "c.find_one({'_id': 2})", lambda c: c.find_one({'_id': 2}),
     "c.drop_index('t_1')", lambda c: c.drop_index('t_1')),
]

SETUP_TEXT = {
    _setup_unique: "c.create_index('u', unique=True); c.create_index('x'); "
                   "c.insert_one({'_id': 1, 'u': 1, 'x': 1})",
    _setup_ttl: "import datetime\nc.create_index('t', expireAfterSeconds=1); "
                "c.insert_one({'_id': 1, 't': datetime.datetime(2000, 1, 1)}); "
                "c.insert_one({'_id': 2})",
}


def sweep_pairs(kmax=120):
    """returns (number of schedules run, [(description, detail dict)] of the failing ones — at
    most one, the earliest preemption point, per pair)"""
    runs, bad = 0, []
    for name, setup, wtext, walker, mtext, mutator in PAIRS:
        for k in range(kmax):
            status, excs, before, free, excl = run_pair(setup, walker, mutator, k)
            runs += 1
            problems = []
            if status != 'completed':
                problems.append('deadlock')
            if excs:
                problems.append('exception ' + '; '.join('thread %d: %s' % e for e in excs))
            if status == 'completed' and not free:
                problems.append('lock still held')
            if excl:
                problems.append('exclusion violated')
            if problems:
                bad.append((name, {
                    'walker (thread 0)': wtext, 'index operation (thread 1)': mtext,
                    'preempted_after_steps': k, 'problems': problems,
                    'python': ('# deterministic replay:\nimport sys; sys.path.insert(0, "harness")\n'
                               'import c19_index_probe as p\n'
                               'row = [r for r in p.PAIRS if r[0] == %r][0]\n'
                               'print(p.run_pair(row[1], row[3], row[5], %d))\n'
                               '# with plain threads: c = mongomock.MongoClient().db.c; %s\n'
                               '# thread 0: %s      thread 1 (while thread 0 is inside its '
                               'per-index loop): %s' % (name, k, SETUP_TEXT[setup].replace(
                                   '\n', '; '), wtext, mtext))}))
                break
            if before < k:           # the walker finished before the preemption point
                break
    return runs, bad


def lazy_listing():
    """[(description, python snippet)]: an index listing that breaks when an index is created /
    dropped while its consumer has read only part of it"""
    bad = []
    for what, act, text in (
            ('created', lambda c: c.create_index('z'), "c.create_index('z')"),
            ('dropped', lambda c: c.drop_index('b_1'), "c.drop_index('b_1')")):
        c = mongomock.MongoClient().db.c19
        c.create_index('a')
        c.create_index('b')
        it = c.list_indexes()
        next(it)
        next(it)
        act(c)
        try:
            list(it)
        except Exception as e:  # pylint: disable=broad-except
            bad.append(('list_indexes(): an index is %s after the consumer has read two items; '
                        'reading on raises %s: %s' % (what, type(e).__name__, e),
                        "import mongomock\nc = mongomock.MongoClient().db.c\n"
                        "c.create_index('a'); c.create_index('b')\nit = c.list_indexes(); "
                        "next(it); next(it)\n%s   # this thread or another one\nlist(it)" % text))
    return bad
